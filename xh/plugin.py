import sys as _sys
if '/verif/xh' not in _sys.path:
    _sys.path.insert(0, '/verif/xh')
if '/verif' not in _sys.path:
    _sys.path.insert(0, '/verif')
import plugmod as _plugmod  # noqa
