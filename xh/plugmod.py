"""CrossHair plugin with the semantic shims of DESIGN 2.3.

S1  opaque formatting: format/str/repr of a symbolic int yields a placeholder and registers the
    symbolic value; nothing is realised by logging / __repr__ / error messages.
S2  exact quotient: int(math.ceil(a / float(b))) is carried as CeilQuot(a, b) whose comparisons with
    integers are decided by cross-multiplication (lemmas L1/L2 in /verif/lemmas).

The module is imported by the tiny plugin stub `xh/plugin.py` (CrossHair exec()s plugin text in a
function scope, so the definitions have to live in a real module).
"""
import math as _math

import crosshair.core as _core
from crosshair.core import NoTracing
from crosshair.libimpl import builtinslib as _bl
from crosshair.tracers import COMPOSITE_TRACER as _CT
from crosshair.util import CrossHairValue

_pm = _CT.patching_module

_orig_format = _core._PATCH_REGISTRATIONS[format]
_orig_repr = _core._PATCH_REGISTRATIONS[repr]
_orig_str = _core._PATCH_REGISTRATIONS[str]
_orig_float = _core._PATCH_REGISTRATIONS[float]
_orig_int = _core._PATCH_REGISTRATIONS[int]
_orig_range = _core._PATCH_REGISTRATIONS[range]
_orig_ceil = _core._PATCH_REGISTRATIONS[_math.ceil]

_PRIMS = (str, int, float, bool, type(None), bytes)

# ---------------------------------------------------------------- S1 placeholder registry
import sys as _sys
if '/verif' not in _sys.path:
    _sys.path.insert(0, '/verif')
from vlib import symreg as _symreg
REG = _symreg.REG
reset = _symreg.reset
_ph = _symreg.placeholder
parse_range = _symreg.parse_range


def _fmt(obj, spec=""):
    with NoTracing():
        if isinstance(obj, _bl.AnySymbolicStr):
            return _orig_format(obj, spec)
        if isinstance(obj, _bl.SymbolicInt):
            return _ph(obj)
        if isinstance(obj, CrossHairValue):
            return "<sym>"
        if type(obj) is CeilQuot:
            return "<ceilquot>"
        prim = type(obj) in _PRIMS
    if prim:
        return _orig_format(obj, spec)
    if spec:
        return _orig_format(obj, spec)
    return str(obj)


def _rp(obj):
    with NoTracing():
        if isinstance(obj, _bl.SymbolicInt):
            return _ph(obj)
        if isinstance(obj, CrossHairValue) and not isinstance(obj, _bl.AnySymbolicStr):
            return "<sym>"
        t = type(obj)
    # containers: C-level repr would call the leaves' own __repr__ (which realises); recurse here
    if t is dict:
        return "{" + ", ".join([_rp(k) + ": " + _rp(v) for k, v in list(obj.items())]) + "}"
    if t is list:
        return "[" + ", ".join([_rp(x) for x in obj]) + "]"
    if t is tuple:
        if len(obj) == 1:
            return "(" + _rp(obj[0]) + ",)"
        return "(" + ", ".join([_rp(x) for x in obj]) + ")"
    if t is set or t is frozenset:
        return t.__name__ + "({" + ", ".join([_rp(x) for x in list(obj)]) + "})"
    return _bl.invoke_dunder(obj, '__repr__')


def _st(*a, **k):
    with NoTracing():
        one = len(a) == 1 and not k
        symint = one and isinstance(a[0], _bl.SymbolicInt)
        sym = one and isinstance(a[0], CrossHairValue) and not isinstance(a[0], _bl.AnySymbolicStr)
        cq = one and type(a[0]) is CeilQuot
    if symint:
        return _ph(a[0])
    if sym:
        return "<sym>"
    if cq:
        return "<ceilquot>"
    if one and type(a[0]) in (dict, list, tuple, set, frozenset):
        return _rp(a[0])
    return _orig_str(*a, **k)


_core._PATCH_REGISTRATIONS[format] = _fmt
_core._PATCH_REGISTRATIONS[repr] = _rp
_core._PATCH_REGISTRATIONS[str] = _st
_pm.nextfn[(_bl._str.__code__, str)] = str
_pm.nextfn[(_bl._format.__code__, format)] = format
if hasattr(_bl, '_repr'):
    _pm.nextfn[(_bl._repr.__code__, repr)] = repr


# ---------------------------------------------------------------- S2 exact quotient
class CeilQuot:
    """ceil(num/den) + k, den >= 1, k a (usually concrete) integer.  Comparisons against integers are decided by
    cross-multiplication (linear whenever the other side and k are concrete); it materialises as
    -((-num)//den) + k only when used as a general number."""

    def __init__(self, num, den, k=0):
        self.num = num
        self.den = den
        self.k = k
        self._m = None

    def mat(self):
        if self._m is None:
            self._m = -((-self.num) // self.den) + self.k
        return self._m

    def __gt__(self, o):
        return self.num > (o - self.k) * self.den

    def __le__(self, o):
        return self.num <= (o - self.k) * self.den

    def __lt__(self, o):
        return self.num <= (o - self.k - 1) * self.den

    def __ge__(self, o):
        return self.num > (o - self.k - 1) * self.den

    def __eq__(self, o):
        if type(o) is CeilQuot:
            return self.mat() == o.mat()
        if self.num > (o - self.k - 1) * self.den:
            if self.num <= (o - self.k) * self.den:
                return True
        return False

    def __ne__(self, o):
        return not self.__eq__(o)

    def __bool__(self):
        return not self.__eq__(0)

    def __add__(self, o):
        if type(o) is int:
            return CeilQuot(self.num, self.den, self.k + o)
        return self.mat() + o

    def __radd__(self, o):
        if type(o) is int:
            return CeilQuot(self.num, self.den, self.k + o)
        return o + self.mat()

    def __sub__(self, o):
        if type(o) is int:
            return CeilQuot(self.num, self.den, self.k - o)
        return self.mat() - o

    def __rsub__(self, o):
        return o - self.mat()

    def __mul__(self, o):
        return self.mat() * o

    def __rmul__(self, o):
        return o * self.mat()

    def __index__(self):
        return self.mat().__index__()

    def __int__(self):
        return self.mat()

    def __hash__(self):
        return hash(self.mat())


class LazyRange:
    """range(start, CeilQuot): membership of the next index is decided by cross-multiplication"""

    def __init__(self, start, stop):
        self.start = start
        self.stop = stop

    def __iter__(self):
        i = self.start
        while self.stop > i:
            yield i
            i += 1

    def __len__(self):
        return (self.stop - self.start).mat()


class Ratio:
    def __init__(self, num, den):
        self.num = num
        self.den = den

    def __ceil__(self):
        return CeilQuot(self.num, self.den)


class ExactIntFloat:
    """float(i) for a symbolic int i, remembering i"""

    def __init__(self, i):
        self.i = i

    def __rtruediv__(self, other):
        return Ratio(other, self.i)

    def __truediv__(self, other):
        raise NotImplementedError

    def __float__(self):
        raise NotImplementedError


class ExactConcFloat(float):
    """float(i) for a concrete int i (|i| < 2**53), remembering i"""

    def __new__(cls, i):
        o = float.__new__(cls, i)
        o.i = i
        return o


def _fl(val=0.0):
    with NoTracing():
        symint = isinstance(val, _bl.SymbolicInt)
        concint = type(val) is int
    if symint:
        return ExactIntFloat(val)
    if concint and abs(val) < 2 ** 53:
        return ExactConcFloat(val)
    return _orig_float(val)


_core._PATCH_REGISTRATIONS[float] = _fl
_pm.nextfn[(_bl._float.__code__, float)] = float


def _ceil(x):
    with NoTracing():
        isr = isinstance(x, Ratio)
    if isr:
        return x.__ceil__()
    return _orig_ceil(x)


_core._PATCH_REGISTRATIONS[_math.ceil] = _ceil
_pm.nextfn[(_orig_ceil.__code__, _math.ceil)] = _math.ceil


def _in(*a, **k):
    if len(a) == 1 and not k:
        with NoTracing():
            cq = isinstance(a[0], CeilQuot)
        if cq:
            return a[0]
    return _orig_int(*a, **k)


_core._PATCH_REGISTRATIONS[int] = _in
_pm.nextfn[(_bl._int.__code__, int)] = int


def _rg(*a):
    with NoTracing():
        lazy = ((len(a) == 1 and type(a[0]) is CeilQuot)
                or (len(a) == 2 and type(a[1]) is CeilQuot and type(a[0]) is int))
    if lazy:
        if len(a) == 1:
            return LazyRange(0, a[0])
        return LazyRange(a[0], a[1])
    a = tuple(x.mat() if type(x) is CeilQuot else x for x in a)
    return _orig_range(*a)


_core._PATCH_REGISTRATIONS[range] = _rg
_pm.nextfn[(_bl._range.__code__, range)] = range

_orig_truediv = _bl.SymbolicInt.__truediv__


def _td(self, other):
    with NoTracing():
        ecf = type(other) is ExactConcFloat
    if ecf:
        return Ratio(self, other.i)
    return _orig_truediv(self, other)


_bl.SymbolicInt.__truediv__ = _td

ACTIVE = True
