#!/bin/sh
# Idempotent bootstrap of the analysis environment: an overlay venv on top of /venv
# with crosshair-tool (+ z3-solver) from the offline wheelhouse.  /repo is put on the
# path by a .pth file, so every run analyses /repo's current working tree.
set -e
V=/verif/.venv
if [ ! -x "$V/bin/crosshair" ] || ! "$V/bin/python" -c 'import crosshair, z3, s3transfer, botocore' 2>/dev/null; then
    rm -rf "$V"
    /venv/bin/python -m venv "$V"
    SP=$("$V/bin/python" -c 'import sysconfig; print(sysconfig.get_paths()["purelib"])')
    printf '%s\n%s\n' /venv/lib/python3.12/site-packages /repo > "$SP/verif_overlay.pth"
    PIP_NO_INDEX=1 "$V/bin/pip" install -q --no-index --find-links /opt/veriftools/wheels crosshair-tool >/dev/null
    "$V/bin/python" -c 'import crosshair, z3, s3transfer, botocore'
fi
echo "verif env ok: $($V/bin/python -c 'import crosshair,z3;print(crosshair.__version__ if hasattr(crosshair,"__version__") else "crosshair", z3.get_version_string())')"
