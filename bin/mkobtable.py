#!/usr/bin/env python3
"""regenerates the table of DESIGN.md section 7.7 from the harness modules (run with /verif/.venv/bin/python)"""
import importlib
import os
import re
import sys

ROOT = os.path.dirname(os.path.dirname(os.path.abspath(__file__)))
sys.path.insert(0, ROOT)
rows = []
for n in range(1, 21):
    pid = 'C%02d' % n
    m = importlib.import_module('harness.c%02d' % n)
    names = []
    for o in m.OBLIGATIONS:
        t = o.get('tier', 'quick')
        names.append(o['id'] + (' (T)' if t == 'thorough' else ''))
    names += [o['id'] + ' (SMT from source)' for o in getattr(m, 'SMT_OBLIGATIONS', [])]
    lem = [x['id'] if isinstance(x, dict) else str(x) for x in getattr(m, 'LEMMAS', [])]
    rows.append('| %s | %s%s |' % (pid, ', '.join(names), ('; lemmas: ' + ', '.join(lem)) if lem else ''))
table = '\n'.join(['| property | obligations (quick tier unless marked T) |', '|----------|------------------------------------------|'] + rows)
p = os.path.join(ROOT, 'DESIGN.md')
s = open(p).read()
pat = re.compile(r'\| property \| obligations \(quick tier unless marked T\) \|\n\|[-|]+\|\n(?:\|.*\|\n)+')
assert pat.search(s)
s = pat.sub(lambda _m: table + '\n', s)
open(p, 'w').write(s)
print(table)
