#!/bin/sh
# usage: bin/seedtest.sh <seed name> <patch file> <property id>...
# tries a seeded change WITHOUT touching /repo: a scratch worktree gets the patch, the checks analyse it through
# VERIF_REPO and write to a scratch output directory.  (The official way - git -C /repo apply; ./check; git checkout -
# gives the same verdicts; this variant can run while other checks use /repo.)
N="$1"; P="$2"; shift 2
W=/tmp/seedwt_$N
git -C /repo worktree add -q --detach "$W" HEAD || exit 9
( cd "$W" && git apply "$P" ) || { echo "patch does not apply"; git -C /repo worktree remove --force "$W"; exit 9; }
rc=0
for id in "$@"; do
    VERIF_REPO="$W" VERIF_OUT="/tmp/seedout_$N" /verif/check "$id" --tier quick > "/tmp/seed_${N}_$id.log" 2>&1
    r=$?; [ $r -ne 0 ] && rc=$r
    echo "== seed $N check $id exit=$r"; grep -E "^VIOLATION|^  obligation|^HARNESS|tier=" "/tmp/seed_${N}_$id.log" | cut -c1-220 | head -6
done
git -C /repo worktree remove --force "$W"
rm -rf "/tmp/seedout_$N/work"
exit $rc
