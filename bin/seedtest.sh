#!/bin/sh
# usage: bin/seedtest.sh <patch file> <property id> [more property ids / --only args after --]
# applies a seeded change to /repo, runs the quick check(s), restores /repo.  Exit status of the last check.
P="$1"; shift
cd /repo || exit 9
git diff --quiet || { echo "/repo has local changes"; exit 9; }
git apply "$P" || { echo "patch does not apply"; exit 9; }
cd /verif
rc=0
for id in "$@"; do
    ./check "$id" --tier quick > "/tmp/seed_$id.log" 2>&1
    rc=$?
    echo "== $id exit=$rc"; grep -E "^VIOLATION|^  obligation|tier=" "/tmp/seed_$id.log" | head -8
done
git -C /repo checkout -- .
exit $rc
