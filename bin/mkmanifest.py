#!/usr/bin/env python3
"""regenerates /verif/MANIFEST.json from the table below (single place to edit)"""
import json

CHECKS = {}   # filled by vlib/manifest_table.py
NA = []
import sys
sys.path[:0] = ['/verif']
from vlib.manifest_table import CHECKS, NA, NOTES

m = {
    'version': 1,
    'setup_cmd': '/verif/bin/setup.sh',
    'hooks': {
        'guard': 'S3TRANSFER_VERIF',
        'enable': 'no source hooks: all instrumentation is harness-side (fakes through public constructor '
                  'parameters, module-name rebinding inside the analysis process); checks export S3TRANSFER_VERIF=1 '
                  'only for symmetry',
        'baseline_off_cmd': 'cd /repo && /venv/bin/python -m pytest -ra -q -p no:cacheprovider --timeout=900 '
                            '--continue-on-collection-errors',
        'source_commits': [],
        'add_only': True,
    },
    'engines': [
        {'name': 'XH', 'path': '/verif/vlib/runner.py', 'serves_properties': sorted(CHECKS),
         'kind_free_text': 'CrossHair 0.0.110 symbolic execution of the real s3transfer code (z3 5.1 decides every '
                           'branch), semantic-shim plugin /verif/xh/plugmod.py, one process per obligation case, '
                           'reachability twins, concrete replay of counterexamples'},
        {'name': 'NS', 'path': '/verif/vlib/ns.py',
         'serves_properties': ['C02', 'C03', 'C04', 'C05', 'C06', 'C07', 'C08', 'C09', 'C10', 'C11', 'C16', 'C18'],
         'kind_free_text': 'nested (LIFO) schedules of the real TransferManager: model executor + model threading '
                           'primitives, schedule positions are symbolic integers explored by CrossHair'},
        {'name': 'CO', 'path': '/verif/vlib/co.py',
         'serves_properties': ['C02', 'C03', 'C04', 'C05', 'C07', 'C08', 'C10', 'C11', 'C12', 'C13', 'C16', 'C17', 'C19'],
         'kind_free_text': 'generator co-versions of the real methods produced from the source by an AST transformer on '
                           'every run; statement-level (also non-LIFO) interleavings with symbolic preemptions / '
                           'priorities, explored by CrossHair'},
        {'name': 'lemmas', 'path': '/verif/lemmas', 'serves_properties': ['C14'],
         'kind_free_text': 'stand-alone SMT-LIB lemmas (z3 4.8.12, z3 5.1, cvc5) justifying shim S2'},
        {'name': 'SMT', 'path': '/verif/vlib/smtob.py', 'serves_properties': ['C06', 'C18'],
         'kind_free_text': 'straight-line string functions translated from the current source (Python AST -> SMT-LIB '
                           'strings, vlib/smtstr.py), encoding validated on concrete samples, vacuity twin, one cvc5 '
                           'query per clause, models replayed on the real function'},
    ],
    'checks': [],
    'notes': NOTES,
    'not_applicable': NA,
}
for pid in sorted(CHECKS):
    c = CHECKS[pid]
    m['checks'].append({
        'property_id': pid,
        'quick_cmd': './check %s --tier quick' % pid,
        'thorough_cmd': './check %s --tier thorough' % pid,
        'evidence_file': '/verif/evidence/%s.json' % pid,
        'replay_cmd_template': './check --replay {path}',
        'engine': 'XH',
        'level_claimed': {'category': 'other', 'text': c['text'], 'design_ref': c.get('ref', 'DESIGN.md section 3 ' + pid)},
        'level_note': c['note'],
        'technique': c['technique'],
    })
json.dump(m, open('/verif/MANIFEST.json', 'w'), indent=1)
print('wrote MANIFEST.json with', len(m['checks']), 'checks;', len(NA), 'not applicable')
