"""OSUtils.get_temp_filename translated from its source into SMT-LIB (strings) - DESIGN 3 / C06.5: the temporary
name a download to a path is written under must be a DIFFERENT path in the SAME directory, with a base name the file
system accepts (<= 255 characters) for every destination name up to that length, and two attempts with different
random extensions must get different temporary names (otherwise one transfer's cleanup removes the other's file).
CrossHair does not confirm this over a symbolic str of 255 characters; cvc5's string solver decides it in < 1 s."""
import os
import string

from vlib import smtstr

NAME_MAX = 255          # what the file system accepts (the property's constant, not read from the code)
DIR_MAX = 40            # bound on the directory part (it is copied through unchanged)


def _consts():
    import s3transfer.utils as U
    c = {'os.extsep': os.extsep}
    for k, v in vars(U.OSUtils).items():
        if isinstance(v, (int, str)) and not isinstance(v, bool) and not k.startswith('__'):
            c['self.' + k] = v
    return c


_AXIOMS = {'os.path.dirname': ('os_dirname', 'String', ['String']),
           'os.path.basename': ('os_basename', 'String', ['String']),
           'os.path.join': ('os_join', 'String', ['String', 'String'])}
_FRESH = {'random_file_extension': 'ext'}
_HEX = '(re.union (re.range "0" "9") (re.range "a" "f") (re.range "A" "F"))'


def _decls(ufs):
    out = ['(set-logic ALL)', '(declare-sort Any 0)', smtstr.PRELUDE,
           '(declare-const D String)', '(declare-const N String)', '(declare-const ext1 String)',
           '(declare-const ext2 String)',
           '(define-fun filename () String (str.++ D "/" N))',
           # posixpath on inputs of the shape D/N (N without "/", D non-empty and not ending in "/"); join is the
           # two-argument posixpath.join.  Checked against the real os.path functions on the samples below.
           '(declare-fun os_dirname (String) String)', '(declare-fun os_basename (String) String)',
           '(assert (= (os_dirname filename) D))', '(assert (= (os_basename filename) N))',
           '(define-fun os_join ((a String) (b String)) String (ite (str.prefixof "/" b) b '
           '(ite (or (= a "") (str.suffixof "/" a)) (str.++ a b) (str.++ a "/" b))))']
    for fn, (sorts, sort) in sorted(ufs.items()):
        out.append('(declare-fun %s (%s) %s)' % (fn, ' '.join(sorts), sort))
    return out


def _assumptions():
    return ['(assert (and (>= (str.len N) 1) (<= (str.len N) %d) (not (str.contains N "/"))))' % NAME_MAX,
            '(assert (and (>= (str.len D) 1) (<= (str.len D) %d) (not (str.suffixof "/" D))))' % DIR_MAX,
            # contract of random_file_extension: 8 characters of string.hexdigits
            '(assert (str.in_re ext1 ((_ re.loop 8 8) %s)))' % _HEX,
            '(assert (str.in_re ext2 ((_ re.loop 8 8) %s)))' % _HEX,
            # the random extension is fresh: the destination name does not already end in it (probability 22^-8)
            '(assert (not (str.suffixof (str.++ "%s" ext1) N)))' % os.extsep,
            '(assert (not (str.suffixof (str.++ "%s" ext2) N)))' % os.extsep]


def _runs():
    import s3transfer.utils as U
    fdef, src = smtstr.function_ast(U.OSUtils.get_temp_filename)
    params = [a.arg for a in fdef.args.args]
    if len(params) != 2:
        raise smtstr.Untranslatable('signature of get_temp_filename changed')
    terms, ufs, calls = [], {}, []
    for run in ('1', '2'):
        t = smtstr.Translator(_consts(), _AXIOMS, _FRESH, run)
        term, sort = t.body(fdef, {params[1]: ('filename', 'String')})
        if sort != 'String':
            raise smtstr.Untranslatable('get_temp_filename does not return a string')
        terms.append(term)
        for k, v in t.ufs.items():
            if ufs.setdefault(k, v) != v:
                raise smtstr.Untranslatable('inconsistent use of ' + k)
        calls += t.uf_calls
    return terms, ufs, sorted(set(calls))


def real(d, name, ext):
    import s3transfer.utils as U
    saved = U.random_file_extension
    U.random_file_extension = lambda num_digits=8: ext
    try:
        return U.OSUtils().get_temp_filename(d + '/' + name)
    finally:
        U.random_file_extension = saved


def judge(d, name, t1, t2, ext1, ext2):
    filename = d + '/' + name
    if t1 == filename:
        return 'tempname: the temporary name IS the destination name'
    if not t1.startswith(d + '/') or '/' in t1[len(d) + 1:]:
        return 'tempname: temporary file not in the destination directory'
    if len(t1[len(d) + 1:]) > NAME_MAX:
        return 'tempname: temporary base name longer than the file system accepts'
    if ext1 != ext2 and t1 == t2:
        return 'tempname: two attempts with different random extensions share one temporary name'
    return None


def build():
    terms, ufs, calls = _runs()
    head = _decls(ufs) + ['(define-fun temp1 () String %s)' % terms[0], '(define-fun temp2 () String %s)' % terms[1],
                          '(define-fun R1 () String (str.substr temp1 (+ (str.len D) 1) (str.len temp1)))']
    clauses = [('is-destination', '(= temp1 filename)'),
               ('other-directory', '(not (str.prefixof (str.++ D "/") temp1))'),
               ('sub-directory', '(str.contains R1 "/")'),
               ('too-long', '(> (str.len R1) %d)' % NAME_MAX),
               ('shared', '(and (distinct ext1 ext2) (= temp1 temp2))')]
    mains = [(lab, '\n'.join(head + _assumptions() + ['(assert %s)' % c, '(check-sat)']) + '\n') for lab, c in clauses]
    twin = '\n'.join(head + _assumptions() + ['(check-sat)']) + '\n'
    samples = []
    for d, n, e in (('/d', 'a', '0123abcd'), ('/some/dir', 'x' * 246, 'ffffffff'), ('/d', 'y' * 247, 'ABCDEF01'),
                    ('/d', 'name.with.dots' + 'z' * 240, '00000000'), ('/d', 'q' * 255, '89abcdef')):
        assert os.path.basename(d + '/' + n) == n and os.path.dirname(d + '/' + n) == d
        smt = '\n'.join(head + ['(declare-const result String)', '(assert (= result temp1))',
                                '(assert (= D %s))' % smtstr._lit(d), '(assert (= N %s))' % smtstr._lit(n),
                                '(assert (= ext1 %s))' % smtstr._lit(e), '(assert (= ext2 %s))' % smtstr._lit(e),
                                '(check-sat)']) + '\n'
        samples.append((smt, real(d, n, e)))
    return dict(mains=mains, twin=twin, samples=samples, values=['D', 'N', 'ext1', 'ext2'],
                functions=['s3transfer.utils.OSUtils.get_temp_filename'], uninterpreted=calls)


def tempname_concrete(d, name, ext1, ext2):
    """concrete replay of a solver model against the real function"""
    return judge(d, name, real(d, name, ext1), real(d, name, ext2), ext1, ext2)


OB_TEMPNAME = dict(
    id='SMT.tempname', build=build, impl='tempname_concrete', module='tempname', model_args=['D', 'N', 'ext1', 'ext2'],
    timeout=(120, 600),
    bounds='destination base name 1..255 characters (every length, every content without "/"), directory part <= 40 '
           'characters, two runs with arbitrary 8-hex-digit random extensions',
    encodes=['s3transfer.utils.OSUtils.get_temp_filename (translated from its source; unknown calls become '
             'uninterpreted functions)'],
    assumptions=['posixpath.dirname/basename/join axiomatised on paths of the shape D/N (validated on samples)',
                 'random_file_extension returns 8 characters of string.hexdigits',
                 'the random extension does not already end the destination name',
                 'trusted: cvc5 1.0.3 string solver (z3 4.8.12 / 5.1 answer unknown on these queries)'])
SMT_OBLIGATIONS = [OB_TEMPNAME]
