"""C17 — a transfer's state only moves forward and stays self-consistent"""
from s3transfer.exceptions import CancelledError, TransferNotDoneError
from s3transfer.futures import TransferCoordinator, TransferFuture

# private-attribute groups (vlib/layout.py) the obligations of this module depend on
LAYOUT = ['coord', 'task']

EXPLANATION = (
    'C17: the real TransferCoordinator / TransferFuture against a reference state machine: (1) one inductive step from '
    'every consistent state (status index and operation index symbolic: the solver enumerates the finite space, the '
    'operation arguments are distinct exception/result objects), (2) public-API sequences of 4 (quick) / 5 (thorough) '
    'operations with symbolic op codes from the initial state, (3) statement-level interleavings of 2 threads on '
    'co-versions of the coordinator methods generated from the source (engine CO).  Judged: done() never reverts, a '
    'finished transfer cannot be moved to a non-done state, first failure/cancellation kept, set_result and the '
    'user\'s set_exception on a finished future replace it, after announce status/exception/result agree and result() '
    'raises exactly the stored exception.  (Not judged: order among the non-done states queued/running.)')

STATUSES = ['not-started', 'queued', 'running', 'success', 'failed', 'cancelled']
DONE = ('success', 'failed', 'cancelled')
E0 = ValueError('pre-existing failure')
E1 = ValueError('first')
E2 = KeyError('second')
NOPS = 9


def probe():
    c = TransferCoordinator()
    return [n for n in ('_status', '_exception', '_result', '_done_event') if not hasattr(c, n)]


class Model:
    def __init__(self, status='not-started', exc=None, res=None, announced=False):
        self.status, self.exc, self.res, self.announced = status, exc, res, announced

    def done(self):
        return self.status in DONE

    def apply(self, op):
        """returns the exception type the operation must raise (or None)"""
        if op in (0, 1):
            if self.done():
                return RuntimeError
            self.status = 'queued' if op == 0 else 'running'
        elif op == 2:
            self.exc, self.res, self.status = None, 'RESULT', 'success'
        elif op in (3, 4):
            if not self.done() or op == 4:
                self.exc, self.status = (E1 if op == 3 else E2), 'failed'
        elif op == 5:
            if not self.done():
                self.exc = 'CANCEL'
                if self.status == 'not-started':
                    self.announced = True
                self.status = 'cancelled'
        elif op == 6:
            self.announced = True
        elif op == 7:
            if not self.done():
                return TransferNotDoneError
            self.exc, self.status = E2, 'failed'
        return None


def do(c, fut, op):
    if op == 0:
        c.set_status_to_queued()
    elif op == 1:
        c.set_status_to_running()
    elif op == 2:
        c.set_result('RESULT')
    elif op == 3:
        c.set_exception(E1)
    elif op == 4:
        c.set_exception(E2, override=True)
    elif op == 5:
        c.cancel('msg')
    elif op == 6:
        c.announce_done()
    elif op == 7:
        fut.set_exception(E2)
    elif op == 8:
        c.add_done_callback(lambda: None)
        c.add_failure_cleanup(lambda: None)


def agree(c, fut, m):
    if c.status != m.status:
        return 'state: status differs from the reference state machine'
    if c.done() != m.done() or fut.done() != m.done():
        return 'state: done() inconsistent with the status'
    ex = c.exception
    if m.exc is None:
        if ex is not None:
            return 'state: exception stored although status is not failed/cancelled'
    elif m.exc == 'CANCEL':
        if not (isinstance(ex, CancelledError) and str(ex) == 'msg'):
            return 'state: cancellation error not stored'
    elif ex is not m.exc:
        return 'state: stored exception is not the first failure / the explicit replacement'
    if (ex is not None) != (c.status in ('failed', 'cancelled')):
        return 'state: exception stored iff failed/cancelled violated'
    if c._done_event.is_set() != m.announced:
        return 'state: done event differs from announce history'
    if m.announced and m.done():
        try:
            r = c.result()
            if ex is not None:
                return 'state: result() returned although an exception is stored'
            if m.status == 'success' and r != m.res:
                return 'state: result() returned a wrong value'
        except Exception as e:  # noqa
            if e is not ex:
                return 'state: result() raised something other than the stored exception'
    return None


def step(sidx, announced, op):
    """C17.1: one operation from an arbitrary consistent state"""
    status = STATUSES[0]
    for i in range(len(STATUSES)):
        if sidx == i:
            status = STATUSES[i]
    c = TransferCoordinator()
    fut = TransferFuture(None, c)
    exc = None
    res = None
    if status == 'failed':
        exc = E0
    elif status == 'cancelled':
        exc = CancelledError('msg')
    elif status == 'success':
        res = 'OLD'
    c._status, c._exception, c._result = status, exc, res
    if announced:
        c._done_event.set()
    m = Model(status, 'CANCEL' if status == 'cancelled' else exc, res, announced)
    was_done = m.done()
    want = None
    got = None
    for k in range(NOPS):
        if op == k:
            want = m.apply(k)
            try:
                do(c, fut, k)
            except Exception as e:  # noqa
                got = type(e)
    if want is not got:
        return 'state: operation raised / did not raise as the state machine requires'
    if was_done and not c.done():
        return 'state: done() reverted to False'
    if status == 'failed' and m.exc is E0 and c.exception is not E0:
        return 'state: first failure overwritten'
    return agree(c, fut, m)


def sequence(n, o0, o1, o2, o3, o4):
    """C17.2: a sequence of public operations from a fresh coordinator"""
    c = TransferCoordinator()
    fut = TransferFuture(None, c)
    m = Model()
    for op in [o0, o1, o2, o3, o4][:n]:
        was_done = m.done()
        want = None
        got = None
        for k in range(NOPS):
            if op == k:
                want = m.apply(k)
                try:
                    do(c, fut, k)
                except Exception as e:  # noqa
                    got = type(e)
        if want is not got:
            return 'state: operation raised / did not raise as the state machine requires'
        if was_done and not c.done():
            return 'state: done() reverted to False'
        r = agree(c, fut, m)
        if r:
            return r
    return None


_SEQ = 'o0: int, o1: int, o2: int, o3: int, o4: int'
_SPRE = ['0 <= o%d <= 8' % i for i in range(5)]
OBLIGATIONS = [
    dict(id='C17.1', impl='step', params='sidx: int, announced: bool, op: int',
         pre=['0 <= sidx <= 5', '0 <= op <= 8'], layout=['_status', '_exception', '_result', '_done_event'],
         timeout=(120, 300),
         bounds='every consistent state (6 statuses x announced or not) x 9 operations, decided through symbolic indices',
         encodes=['TransferCoordinator.set_status_to_queued/running', 'set_result', 'set_exception', 'cancel',
                  'announce_done', 'result', 'TransferFuture.set_exception', 'add_done_callback', 'add_failure_cleanup'],
         assumptions=['consistency invariant: exception stored iff failed/cancelled']),
    dict(id='C17.2', impl='sequence', params=_SEQ, pre=_SPRE, cases=[(4,)], cases_thorough=[(5,)],
         splits=[['o0 == %d' % i] for i in range(9)], timeout=(150, 900),
         bounds='all sequences of 4 (thorough 5) operations out of 9, from the initial state',
         encodes=['TransferCoordinator public operations'], assumptions=[]),
]

from harness.corace import OB_RACE, coordinator_race  # noqa: E402
OBLIGATIONS += [dict(OB_RACE, id='C17.3')]
