"""C05 — no orphaned or doubly-finished multipart uploads"""
from harness import faults as FT
from harness import common as H
from vlib import fakes as F

# private-attribute groups (vlib/layout.py) the obligations of this module depend on
LAYOUT = ['manager', 'coord', 'task', 'bex', 'tasksem', 'sws'] + ['legacy']

EXPLANATION = (
    'C05: multipart uploads and multipart copies run through the real TransferManager against a fake S3 whose '
    'multipart table logs begin/end of create / part / complete / abort per upload id; one fault at a SYMBOLIC index '
    'over all environment calls, before the effect or after it ("service applied it, client got an error").  Oracle at '
    'future-done for every upload id the library received: success & completed once & never aborted, or '
    'failed & aborted; never completed twice; no part/complete begins after an abort; abort only when no other request '
    'of the upload is in flight.  The legacy S3Transfer uploader is checked the same way.')

faulted = FT.faulted


def legacy_upload(size, fault_at, phase):
    """C05.3 legacy S3Transfer.upload_file (MultipartUploader) with a fault at a symbolic S3 call"""
    import s3transfer as S
    from s3transfer.futures import NonThreadedExecutor
    env = F.Env(fault_at, phase, faultable=('s3',))
    s3 = F.FakeS3(env)
    fs = F.FakeFS(env)
    osu = F.make_osutils(fs, src_size=size, env=env)
    # the legacy uploader opens part bodies itself through osutil.open_file_chunk_reader -> give it our file
    from s3transfer.utils import ReadFileChunk

    class LegacyOS(S.OSUtils):
        def get_file_size(self, filename):
            return size

        def open_file_chunk_reader(self, filename, start_byte, size_, callback):
            return S.ReadFileChunk(F.FakeFile(size, start_byte), start_byte, size_, size, callback,
                                   enable_callback=False)

    cfg = S.TransferConfig(multipart_threshold=5 * H.MiB, multipart_chunksize=5 * H.MiB, max_concurrency=1)
    up = S.MultipartUploader(s3, cfg, LegacyOS(), executor_cls=_SerialPool)
    try:
        up.upload_file('/s/source', 'bkt', 'key', None, {})
        ok = True
    except Exception as e:  # noqa
        ok = False
    if env.delivered is not None and ok:
        return 'c05: legacy upload reports success although a request failed'
    r = s3.check_multipart_lifecycle(ok)
    if r:
        return 'c05: legacy ' + r[4:]
    return None


def legacy_upload_sched(size, fault_at, phase, c0, c1):
    """C05.3s: as C05.3 through S3Transfer.upload_file with the pool's part uploads run in an order decided by
    symbolic choices (lazy pool model)"""
    from harness import legacy as L
    c = L.upload(size, 5 * H.MiB, 5 * H.MiB, fault_at, phase, choices=(c0, c1))
    if c.outcome[0] == 'stuck':
        return '~'
    ok = c.outcome[0] == 'ok'
    if c.env.delivered is not None and ok:
        return 'c05: legacy upload reports success although a request failed'
    r = c.s3.check_multipart_lifecycle(ok)
    if r:
        return 'c05: legacy ' + r[4:]
    return None


class _SerialPool:
    """stand-in for concurrent.futures.ThreadPoolExecutor used by the legacy classes: runs inline"""

    def __init__(self, max_workers=None):
        pass

    def __enter__(self):
        return self

    def __exit__(self, *a):
        return False

    def map(self, fn, *its):
        return [fn(*a) for a in zip(*its)]

    def submit(self, fn, *a, **k):
        import concurrent.futures as cf
        f = cf.Future()
        try:
            f.set_result(fn(*a, **k))
        except Exception as e:  # noqa
            f.set_exception(e)
        return f


OBLIGATIONS = FT.fault_obligations('c05', 'C05', which=['up-path', 'up-seek', 'up-stream', 'copy']) + [
    dict(id='C05.3', impl='legacy_upload', params='size: int, fault_at: int, phase: int',
         pre=['5 * 1024 ** 2 < size <= 10 * 1024 ** 2', '-1 <= fault_at <= 6', '0 <= phase <= 1'], timeout=(120, 600),
         bounds='legacy MultipartUploader, 2 parts, serial pool, one fault at a symbolic S3 call index / phase',
         encodes=['s3transfer.MultipartUploader.upload_file', '_upload_parts', '_upload_one_part'],
         assumptions=['S1', 'S2', 'serial executor_cls']),
    dict(id='C05.3s', impl='legacy_upload_sched', params='size: int, fault_at: int, phase: int, c0: int, c1: int',
         pre=['5 * 1024 ** 2 < size <= 10 * 1024 ** 2', '-1 <= fault_at <= 8', '0 <= phase <= 1',
              '0 <= c0 <= 1 and 0 <= c1 <= 1'], splits=[['c0 == 0'], ['c0 == 1']], timeout=(120, 600),
         bounds='legacy S3Transfer.upload_file, 2 parts, one fault at a symbolic environment call / phase, the part '
                'uploads run in either order (lazy pool model)',
         encodes=['s3transfer.S3Transfer.upload_file', 'MultipartUploader.upload_file', '_upload_parts'],
         assumptions=['S1', 'S2', 'lazy pool model: tasks run to completion in any order']),
]

from harness.corace import OB_DEPS, task_dependencies  # noqa: E402
OBLIGATIONS += [dict(OB_DEPS, id='C05.2')]

from harness.nsrun import ns_fault_obligations, nsfaulted  # noqa: E402
OBLIGATIONS += ns_fault_obligations('c05', 'C05', ['up-seek', 'up-stream', 'up-path', 'copy'])

from harness.coupload import OB_PROTO, protocol_fixed  # noqa: E402
OBLIGATIONS += [dict(OB_PROTO, id='C05.4', cases=[('upload-seekable', 1, -1), ('upload-seekable', 4, -1)])]

from harness.c07 import OBLIGATIONS as _C07OBS, cancel_run  # noqa: E402
# "every cancellation point": future.cancel() landing inside any environment call of a multipart upload / copy; judged
# at quiescence AND at the instant the done event is set (harness/common.DoneProbe)
OBLIGATIONS += [dict(o, id='C05.point-' + o['id'].split('point-')[1],
                     tier='thorough' if o['id'].endswith('up-stream') else 'quick')
                for o in _C07OBS if o['id'] in ('C07.point-up-path', 'C07.point-copy', 'C07.point-up-stream')]
