"""Nested-schedule runs (engine NS) of the real TransferManager: model executor, model threading primitives,
symbolic schedule choices, cancellation injected at a symbolic scheduling point through one of the four entry
points, optional single fault.  Shared by C04, C07, C08, C10, C11, C18."""
from harness import common as H
from harness import faults as FT
from vlib import fakes as F
from vlib import ns

ns.install()

ENTRIES = ['future', 'shutdown', 'exit-exc', 'exit-sys', 'exit-kbd', 'kbd-result', 'kbd-shutdown', 'kbd-exit']
MSG = 'stop it'


class Boom(Exception):
    pass


def build(transfer, size, thr, chunk, io, S, fault_at=-1, phase=0, limits=None, prev=False, subs=2):
    """a manager over model executors with one transfer submitted (nothing has run yet)"""
    ns.install()       # (another engine may have rebound the threading names in this process)
    c = H.Ctx()
    env = c.env = F.Env(fault_at, phase)
    env.sched = S
    lim = dict(max_request_concurrency=2, max_submission_concurrency=1, max_request_queue_size=4,
               max_submission_queue_size=4, max_io_queue_size=4, max_in_memory_upload_chunks=2,
               max_in_memory_download_chunks=2)
    lim.update(limits or {})
    kw = dict(multipart_threshold=thr, multipart_chunksize=chunk, io_chunksize=io, num_download_attempts=2)
    kw.update(lim)
    cfg = c.cfg = H.TransferConfig(**kw)
    s3 = c.s3 = F.FakeS3(env, size=size)
    kind = transfer.split('-')[1] if '-' in transfer else None
    fs = c.fs = F.FakeFS(env, dest=H.DEST if transfer in ('down-path', 'down-special') else None, prev=prev,
                         total=size, special=(H.DEST,) if transfer == 'down-special' else ())
    osu = F.make_osutils(fs, src_size=size, env=env)
    m = c.manager = H.TransferManager(s3, cfg, osutil=osu, executor_cls=ns.ModelExecutor)
    for be in (m._request_executor, m._submission_executor, m._io_executor):
        be._executor.env = env
    c.execs = {'request': m._request_executor._executor, 'submission': m._submission_executor._executor,
               'io': m._io_executor._executor}
    c.subs = [F.RecSubscriber(env, 's%d' % i) for i in range(subs)]
    c.transfer = transfer
    c.future = submit(c, transfer, size, c.subs)
    return c


def submit(c, transfer, size, subs, key='key'):
    m, env = c.manager, c.env
    c.nsubmits = getattr(c, '_nsub', 0) + 1
    c._nsub = c.nsubmits
    if transfer == 'up-path':
        return m.upload('/s/source', 'bkt', key, subscribers=subs)
    if transfer == 'up-seek':
        c.src = F.FakeFile(size, 0, env, 'src')
        return m.upload(c.src, 'bkt', key, subscribers=subs)
    if transfer == 'up-stream':
        c.src = F.NonSeekableSource(size, env)
        return m.upload(c.src, 'bkt', key, subscribers=subs)
    if transfer == 'copy':
        return m.copy({'Bucket': 'srcbkt', 'Key': 'srckey'}, 'bkt', key, subscribers=subs)
    if transfer == 'delete':
        return m.delete('bkt', key, subscribers=subs)
    if transfer == 'down-seekable':
        c.sink = F.SeekableSink(env)
        return m.download('bkt', key, c.sink, subscribers=subs)
    if transfer == 'down-stream':
        c.sink = F.StreamSink(env)
        return m.download('bkt', key, c.sink, subscribers=subs)
    c.sink = None
    return m.download('bkt', key, H.DEST, subscribers=subs)


def cancel_action(c, entry):
    """the user's cancellation, through one of the entry points usable from any thread"""
    m = c.manager
    if entry == 'future':
        c.future.cancel()
    elif entry == 'shutdown':
        m.shutdown(cancel=True, cancel_msg=MSG)
    elif entry == 'exit-exc':
        e = Boom(MSG)
        m.__exit__(type(e), e, None)
    elif entry == 'exit-sys':
        # a non-interrupt exception that is not an Exception subclass (sys.exit() inside the with-block)
        e = SystemExit(MSG)
        m.__exit__(type(e), e, None)
    elif entry == 'exit-kbd':
        e = KeyboardInterrupt()
        m.__exit__(type(e), e, None)
    elif entry == 'kbd-shutdown':
        # Ctrl-C arrives while shutdown() is waiting for the transfers
        ns.S.interrupt_pending = True
        try:
            m.shutdown()
        except KeyboardInterrupt:
            pass
        ns.S.interrupt_pending = False
    elif entry == 'kbd-exit':
        # the with-block is left normally; Ctrl-C arrives while __exit__ is waiting for the transfers
        ns.S.interrupt_pending = True
        try:
            m.__exit__(None, None, None)
        except KeyboardInterrupt:
            pass
        ns.S.interrupt_pending = False
    elif entry == 'kbd-result':
        ns.S.interrupt_pending = True
        try:
            c.future.result()
        except KeyboardInterrupt:
            pass
        except Exception:  # noqa  (the transfer's own outcome)
            pass
        ns.S.interrupt_pending = False


def expected_error(entry):
    if entry == 'future':
        return H.CancelledError, ''
    if entry == 'shutdown':
        return H.CancelledError, MSG
    if entry in ('exit-exc', 'exit-sys'):
        return H.FatalError, MSG
    if entry in ('exit-kbd', 'kbd-shutdown', 'kbd-exit'):
        return H.CancelledError, 'KeyboardInterrupt()'
    return H.CancelledError, ''


def go(c, S, entry=None, top_at=-1, prefer=None):
    """run to quiescence: top-level loop with the cancel injected before the top_at-th task start (blocking entry
    points are only usable here), then shutdown.  Returns None or a 'c04:' / '~' verdict."""
    c.cancel_error = None
    c.barrier_ok = True
    c.requests_before_cancel = None
    c.cancelled = False
    try:
        t = 0
        while True:
            if entry is not None and not c.cancelled and t == top_at:
                c.cancelled = True
                c.started_before_cancel = c.future._coordinator.status != 'not-started'
                c.done_before_cancel = c.future.done()
                c.requests_before_cancel = len(c.s3.calls)
                c.outcome_before = H.outcome(c.future) if c.done_before_cancel else None
                try:
                    cancel_action(c, entry)
                except Exception as e:  # noqa
                    c.cancel_error = e
                if entry in ('shutdown', 'exit-exc', 'exit-sys', 'exit-kbd', 'kbd-shutdown', 'kbd-exit') and c.cancel_error is None:
                    # shutdown / with-exit is a barrier, however it ends
                    c.barrier_ok = S.quiescent() and c.future.done() and all(e.closed for e in S.execs)
            r = S.runnable()
            if not r:
                break
            if prefer is not None:
                # laziest-consumer top level: the preferred stage runs whenever it can; the others only when it
                # cannot (or when a blocking primitive pumps them)
                r = [e for e in r if e is c.execs[prefer]] or r
            r[S.choose(len(r))].start_next()
            t += 1
        c.manager.shutdown()
    except ns.Stuck:
        return '~'
    except ns.Deadlock as d:
        if S.stuck:
            return '~'
        return 'c04: ' + str(d)
    if S.stuck:
        return '~'
    if S.deadlock:
        return 'c04: ' + S.deadlock
    if not S.quiescent():
        return 'c04: shutdown returned with tasks still queued or running'
    if not c.future.done() or not c.future._coordinator._done_event.is_set():
        return 'c04: transfer not done at quiescence (result() would block forever)'
    return None


def finish(c):
    try:
        c.outcome = H.outcome(c.future)
    except ns.Stuck:
        c.outcome = ('notdone', None)
    return c.outcome


def effect_reason(c, transfer, size):
    """a transfer that reports success must have its complete effect (C01/C02 oracles in short)"""
    st = c.outcome[0]
    if st != 'ok':
        return None
    if c.s3.bad:
        return c.s3.bad
    if transfer.startswith('up-') or transfer == 'copy':
        blobs = c.s3.objects.get('key')
        if blobs is None or not F.tiles_in_order(F.segs_of(blobs), 0, size):
            return 'success with an incomplete / wrong destination object'
        return None
    if transfer.startswith('down-'):
        return H.dest_content_reason(c, transfer[len('down-'):], size)
    return None


def nsfaulted(prefix, transfer, size, thr, chunk, io, fault_at, phase, p1, k1):
    """the single-fault family of harness/faults.py under nested schedules: nothing runs until a blocking primitive
    or the top-level loop starts it (laziest schedule), plus one nested start at a symbolic scheduling point"""
    S = ns.Sched(nest=[(p1, k1)] if p1 >= 0 else [])
    c = build(transfer, size, thr, chunk, io, S, fault_at=fault_at, phase=phase,
              limits=dict(max_request_concurrency=2))
    v = go(c, S)
    if v:
        return v if v == '~' or prefix == 'c04' else None
    finish(c)
    return FT.pick(FT.judge(c, transfer, size, thr), prefix)


_UP2 = ['1 <= thr <= size', '5 * 1024 ** 2 <= chunk <= 5 * 1024 ** 3', 'chunk < size <= 2 * chunk', 'io == 1']
_DN2 = ['1 <= thr <= size', '1 <= chunk', 'chunk < size <= 2 * chunk', 'chunk <= io']
NS_PARAMS = 'size: int, thr: int, chunk: int, io: int, fault_at: int, phase: int, p1: int, k1: int'


def ns_fault_obligations(prefix, pid, transfers):
    obs = []
    for tr in transfers:
        shape = _DN2 if tr.startswith('down') else _UP2
        rng = ['%d <= fault_at <= %d' % (a, a + 5) for a in range(0, 30, 6)]
        obs.append(dict(
            id='%s.ns-%s' % (pid, tr), impl='nsfaulted', params=NS_PARAMS, cases=[(prefix, tr)],
            pre=shape + ['0 <= phase <= 1', '-1 <= fault_at <= 30', '-1 <= p1 <= 50', '0 <= k1 <= 1'],
            splits=[[r, 'p1 == -1', 'k1 == 0'] for r in rng],
            splits_thorough=[[r, q] for r in rng for q in ('p1 <= 25', '25 < p1')],
            timeout=(170, 1500),
            bounds='2-part transfer over model executors: one fault at a symbolic environment call (0..29), before / '
                   'after the effect; laziest schedule (queued tasks start only when something blocks on them), '
                   'thorough: plus one nested start at a symbolic scheduling point',
            encodes=['SubmissionTask._main (failure path)', '_wait_for_all_submitted_futures_to_complete',
                     'TransferCoordinator.submit / associated futures', 'failure cleanups'],
            assumptions=['S1', 'S2', 'nested (LIFO) schedules only', 'model threading primitives']))
    return obs
