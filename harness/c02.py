"""C02 — downloads deliver exactly the object bytes, also across stream retries"""
from harness import common as H
from vlib import fakes as F

# private-attribute groups (vlib/layout.py) the obligations of this module depend on
LAYOUT = ['manager', 'coord', 'task', 'bex', 'tasksem', 'sws'] + ['defer', 'legacy', 'cci']

EXPLANATION = (
    'C02: the real TransferManager.download (submission task, GetObjectTask retry loop, DownloadChunkIterator, IO '
    'write tasks, DeferQueue, final tasks) runs under CrossHair over in-memory fakes with object size, threshold, '
    'chunk size and io_chunksize as unconstrained symbolic integers (bounded only by <= 3 parts and <= 3 chunks per '
    'attempt), symbolic short-read lengths and symbolic positions of retryable stream faults; the oracle is that the '
    'destination tiles [0,size) exactly.  GetObjectTask is also checked alone, the legacy S3Transfer and the '
    'process-pool worker loop in-process.')


def probe():
    import s3transfer.download as D
    return [n for n in ('GetObjectTask', 'DeferQueue', 'DownloadChunkIterator') if not hasattr(D, n)]


def download(kind, mode, nfaults, short, size, thr, chunk, io, a, b, f1, f2):
    """C02.1: e2e serial download.  a, b: short-read lengths; f1, f2: byte positions of retryable stream faults of
    the first two GetObject attempts (negative / beyond the range = no fault)."""
    faults = []
    if nfaults >= 1:
        faults.append((f1, True))
    if nfaults >= 2:
        faults.append((f2, True))
    c = H.run_download(kind, size, thr, chunk, io, nd=(a, b), stream_faults=faults, attempts=3,
                       short_reads=short, subs=1)
    st, val = c.outcome
    if st != 'ok':
        return 'download: future not successful (%s)' % st
    if c.s3.bad:
        return 'download: ' + c.s3.bad
    r = H.dest_content_reason(c, kind, size)
    if r:
        return 'download: ' + r
    if c.fs.bad:
        return 'download: ' + c.fs.bad
    # multipart decision and request count
    gets = c.s3.gets
    if mode == 'single':
        if any('Range' in kw for op, kw in c.s3.calls if op == 'get_object'):
            return 'download: ranged request below the threshold'
    else:
        if any('Range' not in kw for op, kw in c.s3.calls if op == 'get_object'):
            return 'download: unranged request at/above the threshold'
    r = H.progress_reason(c, size, True)
    if r:
        return 'download: ' + r
    return None


def get_object_task(nfaults, size, start, io, a, b, f1, f2):
    """C02.2: GetObjectTask._main alone for a range [start, start+size): write offsets restart at start_index after
    a fault, advance by len(chunk); an empty first chunk is forwarded once"""
    from s3transfer.download import GetObjectTask
    from s3transfer.futures import TransferCoordinator
    env = F.Env(nd=F.Nondet((a, b)))
    faults = [(f, True) for f in (f1, f2)[:nfaults]]
    s3 = F.FakeS3(env, size=start + size, short_reads=True, stream_faults=faults)
    handed = []

    class OM:
        def queue_file_io_task(self, fileobj, data, offset):
            handed.append((offset, data))

    prog = []
    coord = TransferCoordinator()
    t = GetObjectTask(coord, main_kwargs=dict(
        client=s3, bucket='b', key='k', fileobj=None, extra_args={'Range': f'bytes={start}-'},
        callbacks=[lambda bytes_transferred: prog.append(bytes_transferred)], max_attempts=3,
        download_output_manager=OM(), io_chunksize=io, start_index=start))
    t()
    if coord.exception is not None:
        return 'task: failed although faults < attempts'
    # reconstruct per attempt: every attempt's writes start at `start` and are contiguous
    pos = start
    last_attempt = []
    for off, data in handed:
        if off == start and len(last_attempt) > 0 and off != pos:
            last_attempt = []
            pos = start
        if off != pos:
            return 'task: write offset not contiguous within an attempt'
        if not F.tiles_in_order(data.segs, off, off + len(data)):
            return 'task: chunk content does not match its offset'
        last_attempt.append((off, data))
        pos = off + len(data)
    if pos != start + size:
        return 'task: last attempt did not deliver the whole range'
    if size == 0 and len(handed) < 1:
        return 'task: empty object produced no write'
    if sum(prog) != size:
        return 'task: net progress differs from the range size'
    run = 0
    for v in prog:
        run += v
        if run < 0 or run > size:
            return 'task: running progress outside [0,size]'
    return None


def download_nested(kind, size, thr, chunk, io, rc, iq, dn, p1, k1, b1, j1):
    """C02.3: ranged download under nested schedules (engine NS): parts complete in any LIFO-expressible order, the IO
    queue is as small as 1 (submitters block and other request tasks overtake them)"""
    from harness import nsrun as N
    from vlib import ns
    S = ns.Sched(nest=[(p1, k1)] if p1 >= 0 else [], pump=[(b1, j1)] if b1 >= 0 else [])
    lim = dict(max_request_concurrency=rc, max_io_queue_size=iq, max_in_memory_download_chunks=dn,
               max_request_queue_size=10)
    c = N.build('down-' + kind, size, thr, chunk, io, S, limits=lim, subs=1)
    v = N.go(c, S)
    if v:
        return v if v == '~' else 'download: ' + v[5:]
    if N.finish(c)[0] != 'ok':
        return 'download: future not successful'
    r = N.effect_reason(c, 'down-' + kind, size)
    if r:
        return 'download: ' + r
    r = H.progress_reason(c, size, True)
    if r:
        return 'download: ' + r
    return None


def legacy_download(mode, nfaults, size, thr, chunk, a, f1, f2):
    """C02.4: legacy S3Transfer.download_file (single GET re-opens the file per attempt; ranged path through
    MultipartDownloader with a serial pool) with retryable stream faults at symbolic byte positions and a short read"""
    from harness import legacy as L
    script = [(f, True) for f in (f1, f2)[:nfaults]]
    c = L.download(size, thr, chunk, stream_faults=script, attempts=3, short_reads=True, nd=(a,))
    if c.outcome[0] != 'ok':
        return 'download: legacy download failed although faults < attempts'
    d = c.fs.files.get(H.DEST)
    if d is None:
        return 'download: legacy destination missing'
    r = F.written_ok_seekable(d, size)
    if r:
        return 'download: legacy ' + r
    if set(c.fs.files) != {H.DEST}:
        return 'download: legacy temporary file left'
    if sum(c.progress) < size:
        return 'download: legacy progress callback saw fewer bytes than the object'
    return None


_PRE_SINGLE = ['0 <= size < thr', '1 <= io', 'size <= 3 * io', '1 <= chunk']
_PRE_RANGED = ['1 <= thr <= size', '1 <= chunk', 'size <= 3 * chunk', '1 <= io', 'chunk <= 2 * io']
_P = 'size: int, thr: int, chunk: int, io: int, a: int, b: int, f1: int, f2: int'


def _cases(modes, kinds, nf, shorts):
    return [(k, m, n, s) for m in modes for k in kinds for n in nf for s in shorts]


OBLIGATIONS = [
    dict(id='C02.1s', impl='download', params=_P, pre=_PRE_SINGLE + ['a == 0 and b == 0 and f1 == 0 and f2 == 0'],
         cases=_cases(['single'], ['seekable', 'stream', 'path', 'special'], [0], [False]), timeout=(90, 600),
         bounds='single GET; size, threshold, io_chunksize unbounded symbolic; <= 3 chunks; no faults',
         encodes=['TransferManager.download', 'DownloadSubmissionTask._submit', 'ImmediatelyWriteIOGetObjectTask',
                  'DownloadChunkIterator', 'IOWriteTask', 'IOStreamingWriteTask', 'IORenameFileTask', 'IOCloseTask'],
         assumptions=['S1', 'identity-content data']),
    dict(id='C02.1sf', impl='download', params=_P,
         pre=_PRE_SINGLE + ['0 <= a <= size and b == 0', '-1 <= f1 <= size', 'f2 == -1'],
         cases=_cases(['single'], ['seekable', 'stream', 'path'], [1], [True]), timeout=(150, 900),
         splits=[['f1 == -1'], ['0 <= f1', 'size <= io'], ['0 <= f1', 'io < size <= 2 * io'], ['0 <= f1', '2 * io < size']],
         bounds='single GET; one retryable stream fault after a symbolic number of bytes; one symbolic short read',
         encodes=['GetObjectTask._main retry loop', 'StreamReaderProgress'], assumptions=['S1', 'identity-content data']),
    dict(id='C02.1r', impl='download', params=_P, pre=_PRE_RANGED + ['a == 0 and b == 0 and f1 == 0 and f2 == 0'],
         cases=_cases(['ranged'], ['seekable', 'stream', 'path', 'special'], [0], [False]), timeout=(120, 900),
         bounds='ranged; <= 3 parts, <= 2 chunks per part; all sizes symbolic and otherwise unbounded',
         encodes=['DownloadSubmissionTask._submit_ranged_download_request', 'GetObjectTask', 'DeferQueue',
                  'DownloadNonSeekableOutputManager.queue_file_io_task', 'CountCallbackInvoker',
                  'calculate_num_parts', 'calculate_range_parameter'],
         assumptions=['S1', 'S2', 'identity-content data']),
    dict(id='C02.1rf', impl='download', params=_P,
         pre=['1 <= thr <= size', '1 <= chunk', 'size <= 2 * chunk', '1 <= io', 'chunk <= 2 * io',
              '0 <= a <= chunk and b == 0', '-1 <= f1 <= chunk', 'f2 == -1'],
         cases=_cases(['ranged'], ['seekable', 'stream'], [1], [True]), timeout=(150, 1200),
         splits=[['f1 == -1', 'size <= chunk'], ['f1 == -1', 'size > chunk'], ['0 <= f1', 'size <= chunk'],
                 ['0 <= f1', 'size > chunk', 'chunk <= io'],
                 ['0 <= f1 <= io', 'size > chunk', 'chunk > io', 'a == 0'], ['0 <= f1 <= io', 'size > chunk', 'chunk > io', '0 < a <= io'],
                 ['0 <= f1 <= io', 'size > chunk', 'chunk > io', 'io < a'],
                 ['io < f1', 'size > chunk', 'chunk > io', 'a == 0'], ['io < f1', 'size > chunk', 'chunk > io', '0 < a <= io'],
                 ['io < f1', 'size > chunk', 'chunk > io', 'io < a']],
         splits_thorough=[[]],
         pre_thorough=['1 <= thr <= size', '1 <= chunk', 'size <= 3 * chunk', '1 <= io', 'chunk <= 2 * io',
                       '0 <= a <= chunk and 0 <= b <= chunk', '-1 <= f1 <= chunk', '-1 <= f2 <= chunk'],
         cases_thorough=_cases(['ranged'], ['seekable', 'stream', 'path'], [1, 2], [True]),
         bounds='ranged; <= 2 parts (thorough 3), <= 2 chunks/attempt plus short reads; 1 (thorough 2) retryable '
                'stream faults at symbolic byte positions',
         encodes=['GetObjectTask._main retry loop', 'DeferQueue.request_writes'],
         assumptions=['S1', 'S2', 'identity-content data']),
    dict(id='C02.3', impl='download_nested',
         params='size: int, thr: int, chunk: int, io: int, rc: int, iq: int, dn: int, p1: int, k1: int, b1: int, j1: int',
         cases=[('stream',), ('seekable',)], cases_thorough=[('stream',), ('seekable',), ('path',)],
         pre=['1 <= thr <= size', '1 <= chunk', '2 * chunk < size <= 3 * chunk', 'chunk <= io', '1 <= rc <= 3',
              '1 <= iq <= 2', '1 <= dn <= 3', '-1 <= p1 <= 40', '0 <= k1 <= 2', '-1 <= b1 <= 8', '0 <= j1 <= 2'],
         splits=[['p1 == -1', 'b1 == -1', 'k1 == 0', 'j1 == 0'], ['p1 == -1', 'k1 == 0', 'b1 >= 0', 'rc >= 2', 'dn >= 2'],
                 ['0 <= p1 <= 20', 'b1 == -1', 'j1 == 0', 'rc == 2', 'dn == 2', 'iq == 1'],
                 ['20 < p1', 'b1 == -1', 'j1 == 0', 'rc == 2', 'dn == 2', 'iq == 1']],
         splits_thorough=[['p1 == -1', 'b1 == -1', 'k1 == 0', 'j1 == 0']] +
                         [[a, b] for a in ('p1 == -1', '0 <= p1 <= 10', '10 < p1 <= 20', '20 < p1 <= 30', '30 < p1')
                          for b in ('b1 == -1', '0 <= b1 <= 3', '3 < b1')],
         timeout=(170, 1200),
         bounds='3 parts x 1 chunk; request concurrency 1..3, io queue 1..2, download window 1..3 symbolic; nested '
                '(LIFO) schedules: one nested start at a symbolic scheduling point and one non-default pump choice at a '
                'symbolic blocking step (quick: one of the two)',
         encodes=['GetObjectTask', 'DownloadNonSeekableOutputManager.queue_file_io_task', 'DeferQueue',
                  'BoundedExecutor.submit (blocking)', 'IOWriteTask / IOStreamingWriteTask'],
         assumptions=['S1', 'S2', 'nested (LIFO) schedules only', 'model threading primitives']),
    dict(id='C02.4', impl='legacy_download', params='size: int, thr: int, chunk: int, a: int, f1: int, f2: int',
         cases=[('single', 1), ('ranged', 1)], cases_thorough=[('single', 2), ('ranged', 2)],
         pre=['0 <= a <= 8192', '-1 <= f1 <= 16384', '-1 <= f2 <= 16384'],
         splits=[['0 <= size < thr', 'size <= 8192', 'chunk == 1', 'f2 == -1'],
                 ['1 <= thr <= size', '1 <= chunk <= 16384', 'chunk < size <= 2 * chunk', 'f2 == -1', 'f1 <= 2'],
                 ['1 <= thr <= size', '1 <= chunk <= 16384', 'chunk < size <= 2 * chunk', 'f2 == -1', 'f1 > 2']],
         splits_thorough=[['0 <= size < thr', 'size <= 8192', 'chunk == 1'],
                          ['1 <= thr <= size', '1 <= chunk <= 16384', 'chunk < size <= 2 * chunk']],
         timeout=(170, 1200),
         bounds='legacy front end: single GET of <= 8 KiB, or 2 ranged parts of <= 16 KiB through a serial pool; one '
                '(thorough two) retryable stream faults at symbolic positions of the first requests, one short read',
         encodes=['S3Transfer.download_file', '_get_object', '_do_get_object', 'MultipartDownloader._download_range',
                  '_perform_io_writes'], assumptions=['S1', 'S2', 'serial pool: no real thread interleaving']),
    dict(id='C02.2', impl='get_object_task', params='size: int, start: int, io: int, a: int, b: int, f1: int, f2: int',
         pre=['0 <= size', '0 <= start', '1 <= io', 'size <= 2 * io', '0 <= a <= io and 0 <= b <= io',
              '-1 <= f1 <= size', '-1 <= f2 <= size'],
         cases=[(0,), (1,)], cases_thorough=[(0,), (1,), (2,)], timeout=(120, 900),
         bounds='one range; <= 2 chunks (+2 short reads) per attempt; <= 2 faults; start offset unbounded',
         encodes=['GetObjectTask._main', 'DownloadChunkIterator', 'StreamReaderProgress'], assumptions=['S1']),
]

from harness.codownload import OB_DL, protocol_fixed as co_download_protocol  # noqa: E402
OBLIGATIONS += [dict(OB_DL, id='C02.5', impl='co_download_protocol', cases_thorough=OB_DL['cases_thorough'], splits_thorough=OB_DL['splits'], cases=[('seekable', 3, -1), ('seekable', 4, -1)])]

# the offset-addressed writes and the final rename rely on ONE IO worker running them in queue order, whatever the
# configuration: the wiring obligation of C10 (limits as unbounded symbolic integers)
from harness.c10 import OBLIGATIONS as _C10OBS, wiring  # noqa: E402
OBLIGATIONS += [dict(o, id='C02.6') for o in _C10OBS if o['id'] == 'C10.1']
