"""Engine CO obligations on small classes: co-versions generated from the source on every run."""
import s3transfer.futures as FU
import s3transfer.tasks as TK
import s3transfer.utils as U
from s3transfer.exceptions import CancelledError

from vlib import co

SWS = co.make_co(U.SlidingWindowSemaphore, ['acquire', 'release'], U)
CCI = co.make_co(U.CountCallbackInvoker, ['increment', 'decrement', 'finalize'], U)
COORD_NAMES = ['set_result', 'set_exception', 'cancel', 'announce_done', '_run_done_callbacks',
               '_run_failure_cleanups', '_transition_to_non_done_state', 'set_status_to_queued',
               'set_status_to_running', '_run_callbacks']
COORD = co.make_co(FU.TransferCoordinator, COORD_NAMES, FU)
TASK = co.make_co(TK.Task, ['__call__', '_execute_main', '_log_and_set_exception', '_wait_on_dependent_futures',
                            '_wait_until_all_complete', '_get_all_main_kwargs'], TK)
SUBT = co.make_co(TK.SubmissionTask, ['_main'], TK)


def probe():
    miss = []
    if SWS != ['acquire', 'release']:
        miss.append('SlidingWindowSemaphore.acquire/release')
    if len(CCI) != 3:
        miss.append('CountCallbackInvoker')
    if len(COORD) < 9:
        miss.append('TransferCoordinator methods')
    return miss


def _sem(count):
    s = U.SlidingWindowSemaphore(count)
    s._lock = co.MLock()
    s._condition = co.MCondition(s._lock)
    return s


def sliding_window_waiters(count, nacq, c0, c1, c2, c3, c4, c5, s1=-1, t1=0, s2=-1, t2=0):
    """C04.5 / C12.3: `nacq` threads each acquire (blocking) one token of one tag and release it; capacity `count` <
    nacq so some of them block.  Every interleaving of the monitor sections (choices symbolic, incl. which waiter a
    notify wakes): nobody stays blocked forever, tokens are 0..nacq-1 each once, capacity is back at the end."""
    s = _sem(count)
    got = []
    holding = [0]
    # nacq may also be a string of tags, one per thread ('uutt': two threads on tag u, two on tag t - waiters can then
    # park on a tag the semaphore has never seen while other tags hold the capacity)
    # an upper-case tag is a token taken (non-blocking) before the threads start and released, one per step, by a
    # separate releaser thread: 'UUtt' with capacity 2 = both waiters park on the new tag t while U holds everything
    tags = nacq if isinstance(nacq, str) else 't' * nacq
    held = [(t, s.acquire(t, blocking=False)) for t in tags if t.isupper()]
    tags = ''.join(t for t in tags if not t.isupper())
    nacq = len(tags)

    def releaser():
        for t, k in held:
            yield from s._co_release(t, k)

    def worker(tag):
        tok = yield from s._co_acquire(tag)
        got.append((tag, tok))
        holding[0] += 1
        yield ('pt', 'holding')
        holding[0] -= 1
        yield from s._co_release(tag, tok)

    def invariant():
        if s._count < 0:
            return 'sem: free capacity went negative'
        if holding[0] > count:
            return 'sem: more tokens held at once than the capacity'
        return None

    pre = []
    if s1 >= 0:
        pre.append((s1, t1))
        if s2 >= 0:
            pre.append((s1 + 1 + s2, t2))
    # with preemptions: thread 0 first, then the last one, the middle ones last (a parked waiter is overtaken)
    prio = [nacq + 1] + [1] * (nacq - 2) + [2] if pre and not held else None
    sch = co.Scheduler([c0, c1, c2, c3, c4, c5], max_steps=300, preempt=pre, prio=prio)
    v = sch.run([worker(t) for t in tags] + ([releaser()] if held else []), invariant)
    if v:
        return v if v.startswith('sem:') else 'sem: ' + v
    for t in set(tags):
        if sorted(k for g, k in got if g == t) != list(range(tags.count(t))):
            return 'sem: tokens are not 0..n-1 each once'
    if s._count != count:
        return 'sem: capacity not restored after every token was released'
    if s._condition.waiters:
        return 'sem: a waiter is still asleep although every token was released'
    return None


def count_callback(nt, c0, c1, c2, c3, c4):
    """C04.6: the submitter increments `nt` times (one per part task) and finalizes; each part task decrements once,
    at any time after its increment; every interleaving: the callback fires exactly once, after the last event"""
    fired = []
    inv = U.CountCallbackInvoker(lambda: fired.append(len(events)))
    inv._lock = co.MLock()
    events = []
    started = [False] * nt

    def submitter():
        for i in range(nt):
            yield from inv._co_increment()
            events.append('inc')
            started[i] = True
            yield ('pt', 'submitted')
        yield from inv._co_finalize()
        events.append('fin')

    def task(i):
        while not started[i]:
            yield ('blocked', 'not submitted yet')
        yield from inv._co_decrement()
        events.append('dec')

    sch = co.Scheduler([c0, c1, c2, c3, c4], max_steps=300)
    v = sch.run([submitter()] + [task(i) for i in range(nt)])
    if v:
        return 'invoker: ' + v
    if len(fired) != 1:
        return 'invoker: final callback did not fire exactly once'
    if fired[0] < len(events) - 1:
        return 'invoker: final callback fired before the last part finished / before finalize'
    return None


def _coord():
    c = FU.TransferCoordinator()
    c._lock = co.MLock()
    c._done_callbacks_lock = co.MLock()
    c._failure_cleanups_lock = co.MLock()
    c._associated_futures_lock = co.MLock()
    c._done_event = co.MEvent()
    return c


E1 = ValueError('task failed')


def coordinator_race(op1, op2, started, s0, s1, s2, s3, s4, s5, s6, s7):
    """C17.3 / C08.2: two threads, one coordinator operation each, statement-level interleaving outside lock bodies.
    ops: 0 final task succeeds + announces, 1 a task fails + the final task announces, 2 user cancels,
    3 user set_exception on a (possibly) finished future, 4 the submission thread moves the transfer to queued/running.  `started`: whether the transfer left 'not-started'."""
    c = _coord()
    fut = FU.TransferFuture(None, c)
    if started:
        c.set_status_to_queued()
        c.set_status_to_running()
    ran = {'done': 0, 'cleanup': 0, 'done_before_event': False}

    def on_done():
        ran['done'] += 1
        if not c._done_event.is_set():
            ran['done_before_event'] = True
    c.add_done_callback(on_done)
    c.add_failure_cleanup(lambda: ran.__setitem__('cleanup', ran['cleanup'] + 1))

    def thread(op):
        if op == 0:
            yield from c._co_set_result('r')
            yield from c._co_announce_done()
        elif op == 1:
            yield from c._co_set_exception(E1)
            yield from c._co_announce_done()
        elif op == 2:
            yield from c._co_cancel('m')
        elif op == 3:
            if c.done():
                yield from c._co_set_exception(E1, True)
        else:
            # the submission thread starting the transfer (guarded transitions)
            try:
                yield from c._co_set_status_to_queued()
                yield from c._co_set_status_to_running()
            except RuntimeError:
                pass
    was = {'done': False}

    def monotone():
        if c.done():
            was['done'] = True
        elif was['done']:
            return 'race: done() reverted from True to False'
        return None
    sch = co.Scheduler([s0, s1, s2, s3, s4, s5, s6, s7], max_steps=300)
    v = sch.run([thread(op1), thread(op2)], monotone)
    if v:
        return v if v.startswith('race:') else 'race: ' + v
    st = c.status
    announced = (op1 in (0, 1)) or (op2 in (0, 1)) or (not started and 2 in (op1, op2) and 4 not in (op1, op2))
    if 2 in (op1, op2) and st not in ('success', 'failed', 'cancelled'):
        return 'race: cancelled transfer ended in a non-final status (a finished transfer was restarted)'
    if st not in ('success', 'failed', 'cancelled'):
        if announced:
            return 'race: announced although the status is not final'
        return None
    if (c._exception is not None) != (st in ('failed', 'cancelled')):
        return 'race: exception stored iff failed/cancelled violated'
    if st == 'success' and c._result != 'r':
        return 'race: success without the result'
    if announced:
        if not c._done_event.is_set():
            return 'race: announced but result() would still block'
        if ran['done'] != 1:
            return 'race: done callbacks did not run exactly once'
        if ran['done_before_event']:
            return 'race: done callback ran before result() was unblocked'
        if ran['cleanup'] > 1:
            return 'race: failure cleanups ran twice'
        try:
            c.result()
            if c._exception is not None:
                return 'race: result() returned although an exception is stored'
        except Exception as e:  # noqa
            if e is not c._exception:
                return 'race: result() raised something other than the stored exception'
    return None


def cancel_vs_submission(w1, w2, w3):
    """C08.2: user cancel() racing the submission task (Task.__call__ -> SubmissionTask._main with a trivial
    _submit): under every interleaving done callbacks and cleanups run exactly once and only after the event is set"""
    c = _coord()
    ran = {'done': 0, 'before': False, 'queued': 0}

    def on_done():
        ran['done'] += 1
        if not c._done_event.is_set():
            ran['before'] = True
    c.add_done_callback(on_done)

    class Sub(TK.SubmissionTask):
        def _submit(self, transfer_future, **kw):
            # what every real _submit does last: hand the final task over; here it runs inline
            yield_marker = None
            c.set_result('r')
            c.announce_done()

    class Meta:
        class call_args:
            subscribers = []
    class Fut:
        meta = Meta()
    t = Sub(c, main_kwargs={'transfer_future': Fut()})

    def submission():
        yield from t._co___call__()

    def user():
        yield from c._co_cancel('m')
    was = {'done': False}

    def monotone():
        if c.done():
            was['done'] = True
        elif was['done']:
            return 'race: done() reverted from True to False'
        return None
    pre = []
    if w1 >= 0:
        pre.append((w1, 1))
        if w2 >= 0:
            pre.append((w1 + 1 + w2, 0))
            if w3 >= 0:
                pre.append((w1 + 2 + w2 + w3, 1))
    sch = co.Scheduler(preempt=pre, max_steps=400)
    v = sch.run([submission(), user()], monotone)
    if v:
        return v if v.startswith('race:') else 'race: ' + v
    if not c.done() or not c._done_event.is_set():
        return 'race: transfer not done / not announced after cancel and submission both finished'
    if ran['done'] != 1:
        return 'race: done callbacks did not run exactly once (cancel racing the submission task)'
    if ran['before']:
        return 'race: done callback ran before result() was unblocked'
    return None


def task_dependencies(fail1, fail2, cancel, pr0, pr1, pr2, pr3, st1, th1):
    """CO.deps (C03/C05/C07/C08): two part tasks and the final task of one transfer run on their own threads; the
    final task depends on both part futures.  A part may fail (fail1/fail2), the user may cancel; every
    statement-level interleaving of Task.__call__ (co-version from the source).  Oracle: the final step runs only with
    every dependency finished and every part result present; a failed part or an effective cancel is never followed
    by success; done is announced only after every spawned task finished; exactly once."""
    c = _coord()
    c.set_status_to_queued()
    c.set_status_to_running()
    log = []
    futs = [co.CoFuture(), co.CoFuture()]
    ran = {'done': 0, 'announce_early': False, 'cleanup': 0}

    def on_done():
        ran['done'] += 1
        if not (futs[0].done() and futs[1].done()):
            ran['announce_early'] = True
    c.add_done_callback(on_done)
    c.add_failure_cleanup(lambda: ran.__setitem__('cleanup', ran['cleanup'] + 1))
    EP = ValueError('part failed')

    class Part(TK.Task):
        def _main(self, n, fail):
            log.append(('part', n))
            if fail:
                raise EP
            return 'part-%d' % n

    class Final(TK.Task):
        def _main(self, parts):
            log.append(('final', list(parts), futs[0].done() and futs[1].done()))
            return 'completed'
    parts = [Part(c, main_kwargs={'n': 1, 'fail': fail1}), Part(c, main_kwargs={'n': 2, 'fail': fail2})]
    final = Final(c, pending_main_kwargs={'parts': futs}, is_final=True)

    def run_part(i):
        r = yield from parts[i]._co___call__()
        futs[i].finish(r)

    def run_final():
        yield from final._co___call__()

    def user():
        if cancel:
            yield from c._co_cancel('m')
        return
        yield
    sch = co.Scheduler(prio=[pr0, pr1, pr2, pr3], preempt=[(st1, th1)] if st1 >= 0 else [], max_steps=400)
    v = sch.run([run_part(0), run_part(1), run_final(), user()])
    if v:
        return 'deps: ' + v
    fin = [e for e in log if e[0] == 'final']
    if len(fin) > 1:
        return 'deps: final step ran twice'
    if fin:
        if not fin[0][2]:
            return 'deps: final step ran before every dependency had finished'
        if None in fin[0][1]:
            return 'deps: final step ran although a part produced no result (failed / skipped part)'
    if not c.done() or not c._done_event.is_set():
        return 'deps: transfer not done / not announced after all tasks finished'
    if ran['done'] != 1:
        return 'deps: done callbacks did not run exactly once'
    if ran['announce_early']:
        return 'deps: done announced while a spawned task was still running'
    if (fail1 or fail2) and c.status == 'success':
        return 'deps: success reported although a part failed'
    if c.status == 'success' and not fin:
        return 'deps: success without the final step'
    if c.status != 'success' and ran['cleanup'] != 1:
        return 'deps: failure cleanups did not run exactly once'
    return None


_C6 = 'c0: int, c1: int, c2: int, c3: int, c4: int, c5: int'
_C6P = ['0 <= c%d <= 2' % i for i in range(6)]
_S8 = 's0: int, s1: int, s2: int, s3: int, s4: int, s5: int, s6: int, s7: int'
_S8P = ['0 <= s%d <= 1' % i for i in range(8)]
OB_SEM = dict(id='CO.sem', impl='sliding_window_waiters', params=_C6, cases=[(1, 2), (1, 3), (2, 3), (2, 'UUtt')], pre=_C6P,
              splits=[['c0 == %d' % i] for i in range(3)], timeout=(170, 900),
              bounds='capacity 1..2, 2..3 blocking acquirers/releasers of one tag (and 2 of a tag not seen before, parked while 2 tokens of another tag are held and then released by a third thread), 6 symbolic scheduling choices in 0..2 '
                     '(monitor-level interleavings; which waiter a notify wakes is a choice too)',
              encodes=['SlidingWindowSemaphore.acquire (blocking)', 'release', 'Condition wait/notify'],
              assumptions=['co-versions generated from the source', 'model Condition: notify wakes one chosen waiter'])
def sliding_window_preempt(count, nacq, s1, t1, s2, t2):
    return sliding_window_waiters(count, nacq, 0, 0, 0, 0, 0, 0, s1, t1, s2, t2)


OB_SEMP = dict(id='CO.sem-preempt', impl='sliding_window_preempt', params='s1: int, t1: int, s2: int, t2: int',
               cases=[(1, 3)], cases_thorough=[(1, 3), (2, 4)],
               pre=['0 <= s1 <= 12', '0 <= s2 <= 24', '0 <= t1 <= 3', '0 <= t2 <= 3'],
               splits=[['t1 == 1', 't2 == 1', 's1 <= 3'], ['t1 == 1', 't2 == 1', '3 < s1 <= 7'], ['t1 == 1', 't2 == 1', '7 < s1']],
               splits_thorough=[['t1 == %d' % a, 't2 == %d' % b] for a in range(3) for b in range(3)],
               timeout=(170, 1200),
               bounds='capacity 1 with 3 acquirers (thorough also 2 with 4); priority schedule plus two preemptions at '
                      'symbolic steps (quick: both to the parked waiter) - a woken waiter can be overtaken by a newcomer',
               encodes=['SlidingWindowSemaphore.acquire (blocking, wake-up re-check)', 'release', 'Condition'],
               assumptions=['co-versions generated from the source', 'model Condition'])
OB_SEMN = dict(id='CO.sem-newtag', impl='sliding_window_preempt', params='s1: int, t1: int, s2: int, t2: int',
               cases=[(2, 'UUtt')], cases_thorough=[(2, 'UUtt'), (1, 'Utt'), (2, 'UUttt'), (3, 'UUUtt')],
               pre=['0 <= s1 <= 36', '0 <= t1 <= 2', 's2 == -1', 't2 == 0'],
               pre_thorough=['0 <= s1 <= 40', '0 <= t1 <= 3', '-1 <= s2 <= 12', '0 <= t2 <= 3'],
               splits=[['t1 == %d' % a] for a in range(3)],
               timeout=(170, 1200),
               bounds='capacity 2 held by two tokens of another tag; 2 acquirers (thorough: up to 3, capacities 1..3) park on a '
                      'tag the semaphore has not seen; a third thread releases the held tokens; default order plus one '
                      '(thorough: two) preemption(s) at a symbolic step to a symbolic thread',
               encodes=['SlidingWindowSemaphore.acquire (blocking, first token of a tag issued after a wait)', 'release',
                        'Condition'],
               assumptions=['co-versions generated from the source', 'model Condition'])
OB_CCI = dict(id='CO.invoker', impl='count_callback', params='c0: int, c1: int, c2: int, c3: int, c4: int',
              cases=[(1,), (2,), (3,)], pre=_C6P[:5], timeout=(170, 900),
              bounds='1..3 part tasks + the submitter, 5 symbolic scheduling choices',
              encodes=['CountCallbackInvoker.increment/decrement/finalize'], assumptions=['co-versions from the source'])
OB_RACE = dict(id='CO.race', impl='coordinator_race', params=_S8,
               cases=[(a, b, st) for a in range(5) for b in range(a, 5) for st in (True, False)
                      if not (a == 3 and b == 3) and not (a == 4 and b == 4) and not (st and 4 in (a, b))],
               pre=_S8P, timeout=(170, 900),
               bounds='2 threads, one operation each out of {final success, task failure + announce, cancel, user '
                      'set_exception}, transfer started or not; 8 binary scheduling choices at statement level',
               encodes=['TransferCoordinator.set_result/set_exception/cancel/announce_done/_run_done_callbacks/'
                        '_run_failure_cleanups'], assumptions=['co-versions from the source'])
OB_DEPS = dict(id='CO.deps', impl='task_dependencies',
               params='pr0: int, pr1: int, pr2: int, pr3: int, st1: int, th1: int',
               cases=[(f1, f2, cn) for f1 in (False, True) for f2 in (False, True) for cn in (False, True)],
               pre=['0 <= pr0 <= 3 and 0 <= pr1 <= 3 and 0 <= pr2 <= 3 and 0 <= pr3 <= 3', '-1 <= st1 <= 40',
                    '0 <= th1 <= 3'],
               splits=[['st1 == -1', 'th1 == 0']],
               splits_thorough=[['st1 == -1', 'th1 == 0']] + [['%d <= st1 <= %d' % (a, a + 9)] for a in range(0, 40, 10)],
               timeout=(170, 1200),
               bounds='2 part tasks + final task + user thread; parts fail or not, user cancels or not; priority '
                      'schedules: symbolic priorities 0..3 per thread (every order in which whole threads precede each '
                      'other, blocking included), thorough: plus one preemption at a symbolic step to a symbolic thread',
               encodes=['Task.__call__', '_wait_on_dependent_futures', '_wait_until_all_complete',
                        '_get_all_main_kwargs', '_execute_main', 'TransferCoordinator.set_exception/cancel/'
                        'set_result/announce_done'], assumptions=['co-versions from the source'])
OB_CVS = dict(id='CO.cancel-vs-submission', impl='cancel_vs_submission', params='w1: int, w2: int, w3: int',
              pre=['-1 <= w1 <= 40', '-1 <= w2 <= 30', '-1 <= w3 <= 20'],
              splits=[['w3 == -1', 'w1 <= 10'], ['w3 == -1', '10 < w1 <= 20'], ['w3 == -1', '20 < w1']],
              splits_thorough=[[a, b] for a in ('w1 <= 10', '10 < w1 <= 20', '20 < w1') for b in ('w3 <= 5', '5 < w3')],
              timeout=(170, 1200),
              bounds='cancel() racing Task.__call__ / SubmissionTask._main at statement level: the submission thread runs '
                     'w1 steps, the user w2 steps, the submission thread w3 steps, then the user finishes (2, thorough 3, '
                     'context switches at symbolic positions)',
              encodes=['Task.__call__', 'SubmissionTask._main', 'TransferCoordinator.cancel / announce_done / '
                       '_run_done_callbacks / _transition_to_non_done_state'],
              assumptions=['co-versions from the source'])
