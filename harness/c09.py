"""C09 — progress callbacks account for exactly the transferred bytes"""
from harness import c01, c02
from harness import common as H
from harness import faults as FT
from vlib import fakes as F

# private-attribute groups (vlib/layout.py) the obligations of this module depend on
LAYOUT = ['manager', 'coord', 'task', 'bex', 'tasksem', 'sws'] + ['rfc', 'agg']

EXPLANATION = (
    'C09: (1) one inductive step on the real ReadFileChunk + AggregatedProgressCallback from an ARBITRARY state '
    '(all integers unbounded): invariant file.pos = start+pos, 0 <= R <= size, R + A = min(pos,size), A < threshold '
    'where R = sum reported, A = aggregated-unreported; operations read / seek(0|1|2) / close, with reporting enabled '
    'or disabled; so the running sum stays in [0,size] after any number of re-sends and a full final attempt + close '
    'reports exactly size.  (2) download retry accounting on GetObjectTask alone; (3) end-to-end sums for uploads, '
    'downloads and copies with symbolic sizes, symbolic body read sizes, rewinds and stream faults.')


def probe():
    from s3transfer.upload import AggregatedProgressCallback
    a = AggregatedProgressCallback([])
    return [n for n in ('_bytes_seen', '_threshold') if not hasattr(a, n)]


def rfc_progress_step(kind, enabled, full, start, csize, pos, R, A, thr, a):
    """C09.1"""
    from s3transfer.upload import AggregatedProgressCallback
    from s3transfer.utils import ReadFileChunk
    size = csize if csize < full - start else full - start
    f = F.FakeFile(full, start)
    seen = []
    agg = AggregatedProgressCallback([lambda bytes_transferred: seen.append(bytes_transferred)], threshold=thr)
    c = ReadFileChunk(f, csize, full, callbacks=[agg], enable_callbacks=enabled, close_callbacks=[agg.flush])
    c._amount_read = pos
    f.pos = start + pos
    agg._bytes_seen = A
    if kind == 0:
        c.read(a if a >= 0 else None)
    elif kind == 1:
        c.seek(a)
    elif kind == 2:
        c.seek(a, 1)
    elif kind == 3:
        c.seek(a, 2)
    else:
        c.close()
    R2 = R + sum(seen)
    A2 = agg._bytes_seen
    pos2 = c.tell()
    if kind == 4:
        if enabled and A2 != 0:
            return 'rfc-progress: close did not flush the aggregated progress'
        if enabled and R2 != R + A:
            return 'rfc-progress: flush reported a wrong amount'
        return None
    if not enabled:
        if R2 != R or A2 != A:
            return 'rfc-progress: progress reported while reporting is suppressed'
        return None
    if not (pos2 >= 0 and f.pos == start + pos2):
        return 'rfc-progress: position invariant broken'
    pm = pos2 if pos2 < size else size
    if not (R2 + A2 == pm):
        return 'rfc-progress: reported + aggregated differs from the bytes covered'
    if not (0 <= R2 <= size):
        return 'rfc-progress: running sum left [0,size]'
    return None


def e2e(which, v1, v2, size, thr, chunk, x, y):
    """C09.4: progress part of the end-to-end oracles"""
    if which == 'upload':
        r = c01.upload(v1, v2, v2 == 1, False, size, thr, chunk, 0 if v1 == 'path' else x, y)
    elif which == 'copy':
        r = c01.copy(False, size, thr, chunk)
    else:
        r = c02.download(v1, 'x', v2, True, size, thr, chunk, x, y, 0, y, -1)
    if r and 'progress' in r:
        return r
    return None


def task_retry_progress(nfaults, size, start, io, a, b, f1, f2):
    """C09.2: GetObjectTask alone, range starting at a symbolic offset: progress taken back after a faulted attempt is
    exactly what that attempt reported"""
    r = c02.get_object_task(nfaults, size, start, io, a, b, f1, f2)
    if r and 'progress' in r:
        return r
    return None


def nested_progress(transfer, size, thr, chunk, io, p1, k1, p2):
    """C09.5: progress accounting when parts overlap (engine NS: a second part is started while the first one is
    inside its request / inside a subscriber's on_progress)"""
    from harness import nsrun as N
    from vlib import ns
    S = ns.Sched(nest=([(p1, k1)] if p1 >= 0 else []) + ([(p2, 0)] if p2 >= 0 else []))
    c = N.build(transfer, size, thr, chunk, io, S, limits=dict(max_request_concurrency=2), subs=2)
    v = N.go(c, S)
    if v:
        return v if v == '~' else 'progress: ' + v[5:]
    if N.finish(c)[0] != 'ok':
        return 'progress: transfer failed'
    r = H.progress_reason(c, size, True)
    if r:
        return r
    return None


faulted = FT.faulted
_INV = ['0 <= start <= full', '0 <= csize', '0 <= pos', '1 <= thr',
        '0 <= R <= min(csize, full - start)', '0 <= A < thr', 'R + A == min(pos, min(csize, full - start))']
OBLIGATIONS = [
    dict(id='C09.1', impl='rfc_progress_step',
         params='full: int, start: int, csize: int, pos: int, R: int, A: int, thr: int, a: int',
         cases=[(k, en) for k in range(5) for en in (True, False)], pre=_INV + ['-1 <= a'], timeout=(90, 300),
         layout=['_bytes_seen', '_threshold'],
         bounds='none: one step from an arbitrary state, every integer unbounded',
         encodes=['ReadFileChunk.read', 'ReadFileChunk.seek', 'ReadFileChunk.close', 'AggregatedProgressCallback.__call__',
                  'AggregatedProgressCallback.flush', 'invoke_progress_callbacks'],
         assumptions=['representation invariant (stated in the preconditions)', 'A3']),
    dict(id='C09.1n', impl='rfc_progress_step',
         params='full: int, start: int, csize: int, pos: int, R: int, A: int, thr: int, a: int',
         cases=[(1, True), (2, True), (3, True)], pre=_INV + ['a < -1'], timeout=(90, 300),
         layout=['_bytes_seen', '_threshold'], bounds='as C09.1, negative seek arguments',
         encodes=['ReadFileChunk.seek'], assumptions=['representation invariant']),
    dict(id='C09.4u', impl='e2e', params='size: int, thr: int, chunk: int, x: int, y: int',
         cases=[('upload', 'path', 0), ('upload', 'path', 1), ('upload', 'seekable', 1)],
         pre=['0 <= size', '1 <= thr', '5 * 1024 ** 2 <= chunk <= 5 * 1024 ** 3', 'size <= 2 * chunk', '0 <= x', '-1 <= y'],
         timeout=(150, 900), bounds='<= 2 parts; first body read of symbolic size; v2=1: pre-read + one re-send',
         encodes=['upload progress wiring'], assumptions=['S1', 'S2', 'A3']),
    dict(id='C09.4c', impl='e2e', params='size: int, thr: int, chunk: int, x: int, y: int',
         cases=[('copy', '', 0)],
         pre=['0 <= size', '1 <= thr', '5 * 1024 ** 2 <= chunk <= 5 * 1024 ** 3', 'size <= 3 * chunk', 'x == 0 and y == 0'],
         timeout=(150, 900), bounds='<= 3 parts', encodes=['CopyObjectTask', 'CopyPartTask progress'],
         assumptions=['S1', 'S2']),
    dict(id='C09.4d', impl='e2e', params='size: int, thr: int, chunk: int, x: int, y: int',
         cases=[('download', 'seekable', 1), ('download', 'stream', 1)],
         pre=['1 <= size', '1 <= thr', '1 <= chunk', 'size <= 2 * chunk', '1 <= x', 'chunk <= x', '-1 <= y <= chunk'],
         timeout=(150, 900), bounds='<= 2 parts x 1 chunk, one retryable stream fault at a symbolic position',
         encodes=['StreamReaderProgress', 'GetObjectTask retry rewind'], assumptions=['S1', 'S2']),
    dict(id='C09.2', impl='task_retry_progress',
         params='size: int, start: int, io: int, a: int, b: int, f1: int, f2: int', cases=[(1,), (2,)],
         pre=['1 <= size', '0 <= start', '1 <= io', 'size <= 2 * io', '0 <= a <= io and 0 <= b <= io',
              '-1 <= f1 <= size', '-1 <= f2 <= size'],
         splits=[['f2 == -1', 'b == 0']], splits_thorough=[[]], timeout=(170, 900),
         bounds='one range at a symbolic (unbounded) start offset, <= 2 chunks + short reads per attempt, 1-2 faults',
         encodes=['GetObjectTask._main retry rewind', 'StreamReaderProgress'], assumptions=['S1']),
    dict(id='C09.5', impl='nested_progress', params='size: int, thr: int, chunk: int, io: int, p1: int, k1: int, p2: int',
         cases=[('up-path',), ('up-seek',), ('down-seekable',)],
         pre=['1 <= thr <= size', '5 * 1024 ** 2 <= chunk <= 5 * 1024 ** 3', 'chunk < size <= 2 * chunk', 'io == chunk',
              '-1 <= p1 <= 60', '0 <= k1 <= 1', '-1 <= p2 <= 60'],
         splits=[['p2 == -1', 'p1 <= 15'], ['p2 == -1', '15 < p1 <= 30'], ['p2 == -1', '30 < p1']],
         splits_thorough=[[a, b] for a in ('p1 <= 15', '15 < p1 <= 30', '30 < p1') for b in ('p2 <= 20', '20 < p2 <= 40', '40 < p2')],
         timeout=(170, 1200),
         bounds='2-part transfer, request concurrency 2; one (thorough two) nested start at a symbolic scheduling point '
                '(entry / return of every environment call, incl. inside on_progress): the second part overlaps the first',
         encodes=['AggregatedProgressCallback', 'UploadFilenameInputManager.yield_upload_part_bodies', 'ReadFileChunk',
                  'StreamReaderProgress'], assumptions=['S1', 'S2', 'nested (LIFO) schedules only']),
] + FT.fault_obligations('c09', 'C09', which=['up-path', 'up-stream', 'down-seekable', 'copy'])
