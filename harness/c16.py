"""C16 — streaming destinations are written strictly in order, each byte once"""
from vlib import fakes as F

# private-attribute groups (vlib/layout.py) the obligations of this module depend on
LAYOUT = ['manager', 'coord', 'task', 'bex', 'tasksem', 'sws'] + ['defer', 'cci']

EXPLANATION = (
    'C16: the real DeferQueue (and DownloadNonSeekableOutputManager.queue_file_io_task around it) is driven with '
    'delivery histories exactly as the property quantifies them — disjoint consecutive parts, per part up to 3 '
    'attempts each delivering consecutive chunks from the part\'s first byte, cut anywhere, attempts of different '
    'parts interleaved — with all lengths symbolic and unbounded; plus an inductive step from an arbitrary queue '
    'state.  Oracle: emitted writes have strictly increasing gap-free offsets from 0, blob == its offset range, every '
    'byte once, everything emitted at the end.')


def probe():
    import s3transfer.download as D
    q = D.DeferQueue()
    return [n for n in ('_writes', '_pending_offsets', '_next_offset') if not hasattr(q, n)]


class _Emit:
    def __init__(self):
        self.pos = 0
        self.bad = None

    def take(self, writes):
        for w in writes:
            off, data = w['offset'], w['data']
            if off != self.pos:
                self.bad = 'order: write offset not equal to the bytes written so far'
                return
            cur = off
            for s, n in data.segs:
                if n > 0:
                    if s != cur:
                        self.bad = 'order: data does not belong at its offset'
                        return
                    cur += n
            self.pos = cur


def _deliver(q, em, start, lens):
    """one attempt: consecutive chunks from the part's first byte"""
    off = start
    for n in lens:
        if n > 0:
            em.take(q.request_writes(off, F.Blob(off, n)))
            if em.bad:
                return
            off += n


def one_part(l0, a1, a2, b1, b2):
    """1 part of length l0: attempt A delivers a1, a2 then stops anywhere; final attempt B delivers b1, b2, rest"""
    from s3transfer.download import DeferQueue
    q = DeferQueue()
    em = _Emit()
    _deliver(q, em, 0, [a1, a2])
    if em.bad:
        return em.bad
    _deliver(q, em, 0, [b1, b2, l0 - b1 - b2])
    if em.bad:
        return em.bad
    if em.pos != l0:
        return 'order: data withheld forever / lost'
    return None


def two_parts(order, l0, l1, x1, x2, y1, y2, z1):
    """2 consecutive parts.  Part 1 (second part, [l0, l0+l1)): failed attempt X delivers x1, x2; final attempt Y
    delivers y1, y2, rest.  Part 0: final attempt Z delivers z1, rest.  `order` interleaves the attempts:
    0: X Z Y   1: X Y Z   2: Z X Y   3: X(first chunk) Z X(second) Y"""
    from s3transfer.download import DeferQueue
    q = DeferQueue()
    em = _Emit()
    X = lambda: _deliver(q, em, l0, [x1, x2])
    Y = lambda: _deliver(q, em, l0, [y1, y2, l1 - y1 - y2])
    Z = lambda: _deliver(q, em, 0, [z1, l0 - z1])
    if order == 0:
        seq = [X, Z, Y]
    elif order == 1:
        seq = [X, Y, Z]
    elif order == 2:
        seq = [Z, X, Y]
    else:
        seq = [lambda: _deliver(q, em, l0, [x1]), Z, lambda: _deliver(q, em, l0 + x1, [x2]), Y]
    for step in seq:
        step()
        if em.bad:
            return em.bad
    if em.pos != l0 + l1:
        return 'order: data withheld forever / lost'
    return None


def manager_path(l0, a1, b1):
    """the same through DownloadNonSeekableOutputManager.queue_file_io_task with a serial IO executor: the user
    stream sees the bytes once and in order"""
    from s3transfer.download import DownloadNonSeekableOutputManager
    from s3transfer.futures import BoundedExecutor, NonThreadedExecutor, TransferCoordinator
    env = F.Env()
    sink = F.StreamSink(env)
    coord = TransferCoordinator()
    io = BoundedExecutor(10, 1, executor_cls=NonThreadedExecutor)
    om = DownloadNonSeekableOutputManager(None, coord, io)
    # attempt A: a1 bytes, then the retry B: b1, rest
    if a1 > 0:
        om.queue_file_io_task(sink, F.Blob(0, a1), 0)
    if b1 > 0:
        om.queue_file_io_task(sink, F.Blob(0, b1), 0)
    if l0 - b1 > 0:
        om.queue_file_io_task(sink, F.Blob(b1, l0 - b1), b1)
    return F.written_ok_stream(sink.writes, l0)


def immediate_path(l0, a1, b1):
    """the path of single-request downloads to a stream (ImmediatelyWriteIOGetObjectTask):
    get_immediate_io_write_tasks, the returned tasks run at once; retry cut at different places"""
    from s3transfer.download import DownloadNonSeekableOutputManager
    from s3transfer.futures import BoundedExecutor, NonThreadedExecutor, TransferCoordinator
    env = F.Env()
    sink = F.StreamSink(env)
    coord = TransferCoordinator()
    io = BoundedExecutor(10, 1, executor_cls=NonThreadedExecutor)
    om = DownloadNonSeekableOutputManager(None, coord, io)

    def deliver(off, n):
        if n > 0:
            for t in om.get_immediate_io_write_tasks(sink, F.Blob(off, n), off):
                t()
    deliver(0, a1)
    deliver(0, b1)
    deliver(b1, l0 - b1)
    if coord.exception is not None:
        return 'order: immediate write task failed'
    return F.written_ok_stream(sink.writes, l0)


def step(npend, nxt, o1, n1, o2, n2, off, n):
    """C16.2 inductive step: arbitrary consistent queue state (next offset, <= 2 withheld chunks strictly beyond it,
    disjoint, ascending), one request_writes(off, blob) with arbitrary off >= 0, n >= 1.
    Post: released writes are contiguous from the old next offset, next_offset advances by exactly the released
    bytes, withheld data stays strictly beyond next_offset, nothing already written is written again."""
    import heapq
    from s3transfer.download import DeferQueue
    q = DeferQueue()
    q._next_offset = nxt
    pend = [(o1, n1), (o2, n2)][:npend]
    for o, ln in pend:
        heapq.heappush(q._writes, (o, F.Blob(o, ln)))
        q._pending_offsets.add(o)
    writes = q.request_writes(off, F.Blob(off, n))
    pos = nxt
    for w in writes:
        if w['offset'] != pos:
            return 'step: released write not contiguous with the written prefix'
        cur = pos
        for s, ln in w['data'].segs:
            if ln > 0:
                if s != cur:
                    return 'step: released data does not belong at its offset'
                cur += ln
        pos = cur
    if q._next_offset != pos:
        return 'step: next offset does not equal bytes released'
    for o, d in q._writes:
        if o + len(d) <= q._next_offset and len(d) > 0 and False:
            return 'step: stale chunk kept'
    # progress: if the new chunk covers the next byte, at least that byte must be released
    if off <= nxt < off + n and pos == nxt:
        return 'step: chunk covering the next byte was not released'
    return None


_NN = '0 <= a1 and 0 <= a2 and 0 <= b1 and 0 <= b2'
OBLIGATIONS = [
    dict(id='C16.1a', impl='one_part', params='l0: int, a1: int, a2: int, b1: int, b2: int',
         pre=['1 <= l0', _NN, 'a1 + a2 <= l0', 'b1 + b2 <= l0'], timeout=(60, 300),
         bounds='1 part, 2 attempts, <= 2 chunks in the failed attempt and <= 3 in the final one; lengths unbounded',
         encodes=['s3transfer.download.DeferQueue.request_writes'], assumptions=['identity-content data']),
    dict(id='C16.1b', impl='two_parts', params='l0: int, l1: int, x1: int, x2: int, y1: int, y2: int, z1: int',
         cases=[(0,), (1,), (2,), (3,)],
         pre=['1 <= l0 and 1 <= l1', '0 <= x1 and 0 <= x2 and x1 + x2 <= l1', '0 <= y1 and 0 <= y2 and y1 + y2 <= l1',
              '0 <= z1 <= l0'], timeout=(90, 600),
         bounds='2 parts, part 1 with a failed and a final attempt (<= 2 / 3 chunks), part 0 one attempt of <= 2 chunks, '
                '4 interleavings; lengths unbounded',
         encodes=['s3transfer.download.DeferQueue.request_writes'], assumptions=['identity-content data']),
    dict(id='C16.1c', impl='manager_path', params='l0: int, a1: int, b1: int',
         pre=['1 <= l0', '0 <= a1 <= l0', '0 <= b1 <= l0'], timeout=(60, 300),
         bounds='1 part, retry with different boundaries, through the output manager and a serial IO executor',
         encodes=['DownloadNonSeekableOutputManager.queue_file_io_task', 'IOStreamingWriteTask', 'DeferQueue'],
         assumptions=['identity-content data', 'S1']),
    dict(id='C16.1d', impl='immediate_path', params='l0: int, a1: int, b1: int',
         pre=['1 <= l0', '0 <= a1 <= l0', '0 <= b1 <= l0'], timeout=(60, 300),
         bounds='1 single-request download, retry with different boundaries, through get_immediate_io_write_tasks',
         encodes=['DownloadNonSeekableOutputManager.get_immediate_io_write_tasks', 'IOStreamingWriteTask', 'DeferQueue'],
         assumptions=['identity-content data', 'S1']),
    dict(id='C16.2', impl='step', params='nxt: int, o1: int, n1: int, o2: int, n2: int, off: int, n: int',
         cases=[(0,), (1,), (2,)], layout=['_writes', '_pending_offsets', '_next_offset'],
         pre=['0 <= nxt', 'nxt < o1 and 1 <= n1', 'o1 + n1 <= o2 and 1 <= n2', '0 <= off and 1 <= n'],
         timeout=(60, 300),
         bounds='queue state with <= 2 withheld chunks; all offsets/lengths unbounded; one operation',
         encodes=['s3transfer.download.DeferQueue.request_writes'],
         assumptions=['representation invariant: withheld chunks disjoint, ascending, strictly beyond next_offset']),
]


def stream_nested(size, thr, chunk, io, rc, iq, dn, p1, k1, b1, j1):
    """C16.3: ranged download to a non-seekable stream under nested schedules (engine NS): with a small IO queue a
    request thread blocks while submitting its released writes and other request threads run meanwhile"""
    from harness import c02
    return c02.download_nested('stream', size, thr, chunk, io, rc, iq, dn, p1, k1, b1, j1)


def _c023():
    from harness import c02
    o = [x for x in c02.OBLIGATIONS if x['id'] == 'C02.3'][0]
    return dict(o, id='C16.3', impl='stream_nested', cases=[()], cases_thorough=[()])


OBLIGATIONS.append(_c023())


def stream_faulted(kind, mode, nfaults, short, size, thr, chunk, io, a, b, f1, f2):
    """C16.5: the single-request download to a stream end-to-end under C02's fault sequences (one retryable stream
    fault after a symbolic number of bytes, one symbolic short read)"""
    from harness import c02
    return c02.download(kind, mode, nfaults, short, size, thr, chunk, io, a, b, f1, f2)


def _c021sf():
    from harness import c02
    o = [x for x in c02.OBLIGATIONS if x['id'] == 'C02.1sf'][0]
    return dict(o, id='C16.5', impl='stream_faulted', cases=[c for c in o['cases'] if 'stream' in c])


OBLIGATIONS.append(_c021sf())

from harness.codownload import OB_DL, protocol_fixed as co_download_protocol  # noqa: E402
OBLIGATIONS += [dict(OB_DL, id='C16.4', impl='co_download_protocol', cases=[('stream', 3, -1), ('stream', 4, -1)])]
