"""C04 — every transfer terminates: no deadlock, hang or lost wake-up"""
from harness import common as H
from harness import faults as FT
from harness import nsrun as N
from vlib import fakes as F
from vlib import ns

# private-attribute groups (vlib/layout.py) the obligations of this module depend on
LAYOUT = ['manager', 'coord', 'task', 'bex', 'tasksem', 'sws'] + ['cci', 'defer']

EXPLANATION = (
    'C04: the real TransferManager over the model executor and model threading primitives (engine NS).  A model Lock '
    'knows its owner, so a re-acquisition by the owner is a definite self-deadlock; blocking primitives run other '
    'queued work and report a definite deadlock when nothing can ever make progress.  Obligations: (1) quiescence '
    'completion - with the six concurrency / queue / in-memory limits symbolic in 1..3, one fault at a symbolic '
    'environment call and symbolic nested schedule choices every transfer ends done, result()/shutdown() return; '
    '(2) subscriber callbacks that call back into their own future (done, meta, set_exception, cancel, result from '
    'on_done) on every announce path; (3) the submission task\'s wait loop returns only when every future ever '
    'associated is done; (4) monitor-level interleavings of SlidingWindowSemaphore acquirers/releasers and of '
    'CountCallbackInvoker (engine CO).  Arbitrary preemptive interleavings of the whole manager are outside.')


def quiescence(transfer, size, thr, chunk, io, fault_at, phase, l1, l2, l3, l4, l5, l6, c0, c1):
    """C04.1"""
    S = ns.Sched([c0, c1])
    lim = dict(max_request_concurrency=l1, max_submission_concurrency=l2, max_request_queue_size=l3,
               max_io_queue_size=l4, max_in_memory_upload_chunks=l5, max_in_memory_download_chunks=l6)
    c = N.build(transfer, size, thr, chunk, io, S, fault_at=fault_at, phase=phase, limits=lim)
    v = N.go(c, S)
    if v:
        return v
    st, val = N.finish(c)
    if st not in ('ok', 'exc'):
        return 'c04: transfer not done at quiescence'
    r = N.effect_reason(c, transfer, size)
    if r:
        return 'c04: ' + r
    return None


ACTIONS = ['done', 'meta', 'set_exception', 'cancel', 'result']


def reentrant(path, cbtype, transfer, act, size):
    """C04.2: a subscriber calls back into its own future from a callback"""
    S = ns.Sched([])
    fault = -1
    if path == 'request-failure':
        fault = 2          # on_queued x1 + ... : the first S3 call of the transfer
    c = N.build(transfer, size, size + 1, 5 * H.MiB, size + 1, S, fault_at=-1, subs=1)
    if path == 'request-failure':
        # fail the first S3 request, wherever it is in the numbering
        c.env.faultable = ('s3',)
        c.env.fault_at = 0
        c.env.n = 0
    sub = c.subs[0]

    def reenter(kind, future):
        if kind != cbtype:
            return
        for i in range(len(ACTIONS)):
            if act == i:
                a = ACTIONS[i]
                if a == 'done':
                    future.done()
                elif a == 'meta':
                    future.meta.size
                    future.meta.call_args
                elif a == 'set_exception':
                    try:
                        future.set_exception(ValueError('user'))
                    except H.TransferNotDoneError:
                        pass
                elif a == 'cancel':
                    future.cancel()
                elif a == 'result' and kind == 'done':
                    try:
                        future.result()
                    except Exception:  # noqa
                        pass
    sub.reenter = reenter
    v = N.go(c, S, 'future' if path == 'cancel-before-start' else None, 0)
    if v:
        return v
    st, val = N.finish(c)
    if st not in ('ok', 'exc'):
        return 'c04: transfer not done at quiescence'
    if sub.done != 1:
        return 'c04: on_done did not run exactly once'
    return None


def wait_all(rounds, n0, n1, n2):
    """C04.4: SubmissionTask._wait_for_all_submitted_futures_to_complete returns only when every future ever
    associated with the transfer is done, even when finishing futures spawn further ones"""
    from s3transfer.futures import TransferCoordinator
    from s3transfer.tasks import SubmissionTask
    coord = TransferCoordinator()
    counts = [n0, n1, n2][:rounds]
    allf = []

    class Fut:
        def __init__(self, level):
            self.level = level
            self.finished = False
            allf.append(self)

        def result(self):
            if not self.finished:
                self.finished = True
                # finishing spawns the next generation (as request tasks submitting io tasks do)
                nxt = self.level + 1
                if nxt < len(counts) and not getattr(coord, '_spawned_%d' % nxt, False):
                    setattr(coord, '_spawned_%d' % nxt, True)
                    for _ in range(3):
                        if _ < counts[nxt]:
                            coord.add_associated_future(Fut(nxt))
                coord.remove_associated_future(self)
            return None

    for _ in range(3):
        if counts and _ < counts[0]:
            coord.add_associated_future(Fut(0))
    t = SubmissionTask(coord, main_kwargs={})
    t._wait_for_all_submitted_futures_to_complete()
    for f in allf:
        if not f.finished:
            return 'c04: wait loop returned while an associated future was unfinished'
    if coord.associated_futures:
        return 'c04: associated futures left after the wait loop'
    return None


_Q = ('size: int, thr: int, chunk: int, io: int, fault_at: int, phase: int, l1: int, l2: int, l3: int, l4: int, '
      'l5: int, l6: int, c0: int, c1: int')
_LIM = ['1 <= l1 <= 3 and 1 <= l2 <= 3 and 1 <= l3 <= 3 and 1 <= l4 <= 3 and 1 <= l5 <= 3 and 1 <= l6 <= 3',
        '0 <= c0 <= 2 and 0 <= c1 <= 2', '0 <= phase <= 1']
_UP2 = ['1 <= thr <= size', '5 * 1024 ** 2 <= chunk <= 5 * 1024 ** 3', 'chunk < size <= 2 * chunk', 'io == 1']
_DN2 = ['1 <= thr <= size', '1 <= chunk', 'chunk < size <= 2 * chunk', 'chunk <= io']


def _qobs():
    out = []
    for tr, shape, tier in [('up-stream', _UP2, 'quick'), ('down-stream', _DN2, 'quick'), ('down-path', _DN2, 'quick'),
                            ('up-path', _UP2, 'thorough'), ('copy', _UP2, 'thorough'), ('up-seek', _UP2, 'thorough')]:
        # limits: quick fixes four of them to 1 (the tightest setting) and leaves the two relevant ones symbolic
        rel = {'up-stream': ('l1', 'l5'), 'down-stream': ('l1', 'l6'), 'down-path': ('l1', 'l4')}.get(tr, ('l1', 'l3'))
        fix = [l + ' == 1' for l in ('l1', 'l2', 'l3', 'l4', 'l5', 'l6') if l not in rel]
        out.append(dict(
            id='C04.1-' + tr, impl='quiescence', params=_Q, cases=[(tr,)], tier=tier,
            pre=_LIM + shape + ['-1 <= fault_at <= 30'],
            splits=[fix + ['fault_at == -1', 'phase == 0']] + [fix + [rg, 'c0 == 0', 'c1 == 0'] for rg in (
                '0 <= fault_at <= 3', '3 < fault_at <= 6', '6 < fault_at <= 8', '8 < fault_at <= 10',
                '10 < fault_at <= 12', '12 < fault_at <= 15', '15 < fault_at <= 20', '20 < fault_at')],
            splits_thorough=[['fault_at == -1', 'phase == 0', 'l2 == 1'], ['0 <= fault_at <= 10', 'l2 == 1', 'l3 == l4', 'l5 == l6'],
                             ['10 < fault_at', 'l2 == 1', 'l3 == l4', 'l5 == l6']],
            timeout=(170, 1500),
            bounds='2-part transfer; the two limits that govern this transfer type symbolic in 1..3, the others 1 '
                   '(thorough: all six in 1..3 with pairwise ties); one fault at a symbolic environment call or none; '
                   '2 symbolic nested-start choices',
            encodes=['TransferManager', 'BoundedExecutor.submit', 'TaskSemaphore', 'SlidingWindowSemaphore.acquire '
                     '(blocking)', 'Task._wait_on_dependent_futures', 'SubmissionTask._main', 'CountCallbackInvoker'],
            assumptions=['S1', 'S2', 'nested (LIFO) schedules only', 'model threading primitives']))
    return out


OBLIGATIONS = _qobs() + [
    dict(id='C04.2', impl='reentrant', params='act: int, size: int',
         cases=[(p, cb, tr) for p in ('final', 'cancel-before-start', 'request-failure')
                for cb in ('done', 'queued', 'progress') for tr in ('up-path', 'down-seekable')
                if not (p == 'cancel-before-start' and cb != 'done')],
         pre=['0 <= act <= 4', '1 <= size <= 100'], timeout=(120, 300),
         bounds='single-request upload / download; every announce path x callback type x action (symbolic index)',
         encodes=['TransferCoordinator.cancel', 'announce_done', '_run_done_callbacks', 'TransferFuture.set_exception/'
                  'cancel/result/done'],
         assumptions=['model Lock detects owner re-acquisition (real threading.Lock would block forever)']),
    dict(id='C04.4', impl='wait_all', params='n0: int, n1: int, n2: int', cases=[(1,), (2,), (3,)],
         pre=['0 <= n0 <= 3 and 0 <= n1 <= 3 and 0 <= n2 <= 3'], timeout=(60, 300),
         bounds='<= 3 generations of <= 3 futures, each finishing future of a generation spawns the next one',
         encodes=['SubmissionTask._wait_for_all_submitted_futures_to_complete', 'TransferCoordinator.associated_futures'],
         assumptions=[]),
]

from harness.corace import OB_CCI, OB_SEM, OB_SEMP, count_callback, sliding_window_preempt, sliding_window_waiters  # noqa: E402
OBLIGATIONS += [dict(OB_SEM, id='C04.5', cases=[(1, 2), (1, 3), (2, 3)], cases_thorough=[(1, 2), (1, 3), (2, 3), (2, 4)]), dict(OB_CCI, id='C04.6')]
OBLIGATIONS += [dict(OB_SEMP, id='C04.5p')]

from harness.c18 import OBLIGATIONS as _C18OBS, early_shutdown  # noqa: E402
OBLIGATIONS += [dict(o, id='C04.7') for o in _C18OBS if o['id'] == 'C18.early']

from harness.coupload import OB_PROTO, protocol_fixed  # noqa: E402
OBLIGATIONS += [dict(OB_PROTO, id='C04.8', tier='thorough', cases_thorough=OB_PROTO['cases'], splits_thorough=OB_PROTO['splits'])]

from harness.c07 import OBLIGATIONS as _C07OBS, cancel_run  # noqa: E402
# termination under a cancel landing inside any environment call (incl. HeadObject while the submission loop runs)
OBLIGATIONS += [dict(o, id='C04.9-' + o['id'].split('point-')[1]) for o in _C07OBS
                if o['id'] in ('C07.point-down-path', 'C07.point-up-path', 'C07.point-down-stream')]
