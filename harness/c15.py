"""C15 — extra arguments reach exactly the S3 operations that accept them"""
import botocore.session

from harness import common as H
from harness import legacy as L
from vlib import fakes as F

# private-attribute groups (vlib/layout.py) the obligations of this module depend on
LAYOUT = ['manager', 'coord', 'task', 'bex', 'tasksem', 'sws'] + ['legacy']

EXPLANATION = (
    'C15: oracle = input shapes of the installed botocore S3 service model (not the repo).  For every front end '
    '(manager upload / download / copy / delete, legacy S3Transfer upload / download) and mode (single, multipart / '
    'ranged, size given or discovered) the real code runs with ONE extra argument whose name is NAMES[idx] for a '
    'symbolic idx over allow-list + every member of the involved operations\' shapes + a fresh unknown name, plus '
    'symbolic booleans for the interacting arguments (ChecksumAlgorithm, a full-object checksum, ChecksumType, '
    'MpuObjectSize, client request_checksum_calculation).  Oracle: a name outside the allow-list raises ValueError '
    'before any request; every keyword of every recorded call is a member of that operation\'s shape; name in '
    'shape(op) => forwarded with the identical value (copy-source conditions/keys to their HeadObject names; a '
    'full-object checksum only to PutObject / CompleteMultipartUpload, never UploadPart, and adds ChecksumType='
    'FULL_OBJECT + matching ChecksumAlgorithm to CreateMultipartUpload; CRC32 default iff when_supported and no '
    'full-object checksum).  AbortMultipartUpload is not judged.')

_model = botocore.session.get_session().get_service_model('s3')
OPNAME = {'put_object': 'PutObject', 'get_object': 'GetObject', 'head_object': 'HeadObject',
          'copy_object': 'CopyObject', 'delete_object': 'DeleteObject',
          'create_multipart_upload': 'CreateMultipartUpload', 'upload_part': 'UploadPart',
          'upload_part_copy': 'UploadPartCopy', 'complete_multipart_upload': 'CompleteMultipartUpload',
          'abort_multipart_upload': 'AbortMultipartUpload'}
SHAPES = {op: frozenset(_model.operation_model(name).input_shape.members) for op, name in OPNAME.items()}
FULL = ['ChecksumCRC32', 'ChecksumCRC32C', 'ChecksumCRC64NVME', 'ChecksumSHA1', 'ChecksumSHA256']
STRUCTURAL = {'Bucket', 'Key', 'Body', 'UploadId', 'PartNumber', 'MultipartUpload', 'CopySource', 'CopySourceRange',
              'Range'}
HEAD_MAP = {'CopySourceIfMatch': 'IfMatch', 'CopySourceIfModifiedSince': 'IfModifiedSince',
            'CopySourceIfNoneMatch': 'IfNoneMatch', 'CopySourceIfUnmodifiedSince': 'IfUnmodifiedSince',
            'CopySourceSSECustomerKey': 'SSECustomerKey', 'CopySourceSSECustomerAlgorithm': 'SSECustomerAlgorithm',
            'CopySourceSSECustomerKeyMD5': 'SSECustomerKeyMD5'}
MiB = 1024 ** 2


def _names(front):
    from s3transfer.manager import TransferManager as TM
    import s3transfer as S
    ops = {'upload': ['put_object', 'create_multipart_upload', 'upload_part', 'complete_multipart_upload'],
           'download': ['head_object', 'get_object'],
           'copy': ['head_object', 'copy_object', 'create_multipart_upload', 'upload_part_copy',
                    'complete_multipart_upload'],
           'delete': ['delete_object'],
           'legacy-upload': ['put_object', 'create_multipart_upload', 'upload_part', 'complete_multipart_upload'],
           'legacy-download': ['head_object', 'get_object']}[front]
    allow = {'upload': TM.ALLOWED_UPLOAD_ARGS, 'download': TM.ALLOWED_DOWNLOAD_ARGS, 'copy': TM.ALLOWED_COPY_ARGS,
             'delete': TM.ALLOWED_DELETE_ARGS, 'legacy-upload': S.S3Transfer.ALLOWED_UPLOAD_ARGS,
             'legacy-download': S.S3Transfer.ALLOWED_DOWNLOAD_ARGS}[front]
    s = set(allow)
    for op in ops:
        s |= set(SHAPES[op])
    s -= STRUCTURAL
    return sorted(s) + ['NotAnS3Parameter'], list(allow), ops


NAMES = {f: _names(f) for f in ('upload', 'download', 'copy', 'delete', 'legacy-upload', 'legacy-download')}


def _value(name):
    if name == 'ChecksumAlgorithm':
        return 'SHA256'
    if name == 'ChecksumType':
        return 'FULL_OBJECT'
    return 'VALUE-OF-' + name


def forward(front, multipart, idx, with_alg, full_idx, with_type, with_mpu, supported):
    names, allow, ops = NAMES[front]
    name = names[0]
    for i in range(len(names)):
        if idx == i:
            name = names[i]
    extra = {name: _value(name)}
    if front == 'upload':
        if with_alg:
            extra['ChecksumAlgorithm'] = 'SHA256'
        for i in range(len(FULL)):
            if full_idx == i:
                extra[FULL[i]] = _value(FULL[i])
        if with_type:
            extra['ChecksumType'] = 'FULL_OBJECT'
        if with_mpu:
            extra['MpuObjectSize'] = 'VALUE-OF-MpuObjectSize'
    elif front == 'copy' and with_alg:
        extra['ChecksumAlgorithm'] = 'SHA256'
    given = dict(extra)
    rcc = 'when_supported' if supported else 'when_required'
    size = 12 * MiB if multipart else 100
    thr = 5 * MiB
    env = F.Env()
    c = H.Ctx()
    c.subs = []
    err = None
    try:
        if front == 'upload':
            c = H.run_upload('path', size, thr, 5 * MiB, extra_args=extra, rcc=rcc, subs=0)
        elif front == 'download':
            c = H.run_download('seekable', size, thr, 5 * MiB, 5 * MiB, extra_args=extra, subs=0)
        elif front == 'copy':
            c = H.run_copy(size, thr, 5 * MiB, extra_args=extra, rcc=rcc, subs=0)
        elif front == 'delete':
            s3 = F.FakeS3(env, rcc=rcc)
            m = H.manager(s3, H.TransferConfig())
            c.s3 = s3
            c.future = m.delete('bkt', 'key', extra_args=extra)
            c.outcome = H.outcome(c.future)
        elif front == 'legacy-upload':
            c = L.upload(size, thr, 5 * MiB, extra_args=extra)
        else:
            # small sizes: the legacy ranged path reads 16 KiB at a time into a queue of 100 entries
            c = L.download(100, 50 if multipart else 1000, 40, extra_args=extra)
        if front.startswith('legacy') and c.outcome[0] == 'exc' and isinstance(c.outcome[1], ValueError) \
                and not c.s3.calls:
            raise c.outcome[1]
    except ValueError as e:
        err = e
        calls = []
    else:
        calls = c.s3.calls
        st = c.outcome[0]
    if not all(k in allow for k in given):
        if err is None:
            return 'c15: argument outside the allow-list accepted'
        return None
    if err is not None:
        return 'c15: allowed argument rejected'
    if st != 'ok':
        return 'c15: transfer failed'
    full_given = [k for k in given if k in FULL]
    for op, kw in calls:
        shape = SHAPES[op]
        for k in kw:
            if k not in shape:
                return 'c15: forwarded argument unknown to the operation it is sent to'
        if op == 'abort_multipart_upload':
            continue
        if 'CopySource' in kw and (kw['CopySource'] != {'Bucket': 'srcbkt', 'Key': 'srckey'}):
            return 'c15: CopySource reaches the service modified (the caller\'s dict was changed)'
        for k, v in given.items():
            if front == 'copy' and op == 'head_object':
                if k in HEAD_MAP:
                    if kw.get(HEAD_MAP[k]) is not v:
                        return 'c15: copy-source condition/key not mapped to its HeadObject equivalent'
                elif k in ('RequestPayer', 'ExpectedBucketOwner') and kw.get(k) is not v:
                    return 'c15: argument accepted by the operation was not forwarded'
                continue
            if k in FULL:
                if op == 'upload_part':
                    if k in kw:
                        return 'c15: full-object checksum sent with an individual part'
                    continue
            if k == 'ChecksumAlgorithm' and full_given and front == 'upload' and multipart:
                continue   # replaced by the algorithm of the full-object checksum (judged below)
            if k in shape and kw.get(k) is not v:
                return 'c15: argument accepted by %s was not forwarded unmodified (%s)' % (op, front)
        if front == 'upload':
            if full_given and multipart and op == 'create_multipart_upload':
                algs = [g.replace('Checksum', '') for g in full_given]   # several at once: any of them
                if kw.get('ChecksumType') != 'FULL_OBJECT' or kw.get('ChecksumAlgorithm') not in algs:
                    return 'c15: full-object checksum without matching ChecksumType/ChecksumAlgorithm on create'
            if full_given and multipart and op == 'complete_multipart_upload' and 'ChecksumType' in shape \
                    and kw.get('ChecksumType') != 'FULL_OBJECT':
                # create and complete must agree on the checksum type the library derived from the user's checksum
                return 'c15: full-object checksum without the matching ChecksumType on complete'
            if op in ('put_object', 'create_multipart_upload', 'upload_part'):
                has = 'ChecksumAlgorithm' in kw
                want_default = supported and not full_given and 'ChecksumAlgorithm' not in given
                if want_default and kw.get('ChecksumAlgorithm') != 'CRC32':
                    return 'c15: CRC32 not the default algorithm although the client asks for checksums'
                if not supported and not full_given and 'ChecksumAlgorithm' not in given and has:
                    return 'c15: checksum algorithm added although neither user nor client asked'
                if full_given and 'ChecksumAlgorithm' not in given and has and kw['ChecksumAlgorithm'] not in [
                        g.replace('Checksum', '') for g in full_given]:
                    return 'c15: user supplied a full-object checksum but a different checksum algorithm was added'
    return None


def _space(front):
    return len(NAMES[front][0])


_P = 'idx: int, with_alg: bool, full_idx: int, with_type: bool, with_mpu: bool, supported: bool'


def _ob(front, modes, inter, tier='quick'):
    n = _space(front)
    pre = ['0 <= idx < %d' % n]
    if inter:
        pre += ['-1 <= full_idx <= 4']
    else:
        pre += ['full_idx == -1', 'not with_alg', 'not with_type', 'not with_mpu', 'not supported']
    step = 12
    return dict(id='C15.' + front + ('-x' if inter else ''), impl='forward', params=_P,
                cases=[(front, m) for m in modes], pre=pre, tier=tier,
                splits=[['%d <= idx < %d' % (a, a + step)] for a in range(0, n, step)], timeout=(170, 900),
                bounds='exhaustive over the finite name space (allow-list + all members of the involved shapes + one '
                       'unknown name) through a symbolic index; one argument at a time' + (
                           ' combined with every subset of the interacting arguments' if inter else ''),
                encodes=['TransferManager._validate_all_known_args', '_add_operation_defaults',
                         'UploadSubmissionTask._extra_*_args', 'CopySubmissionTask filters', 'get_filtered_dict',
                         'DownloadSubmissionTask', 'DeleteSubmissionTask', 'S3Transfer allow-lists'],
                assumptions=['installed botocore S3 model as oracle', 'S1', 'S2'])


OBLIGATIONS = [
    _ob('upload', [False, True], False), _ob('download', [False, True], False), _ob('copy', [False, True], False),
    _ob('delete', [False], False), _ob('legacy-upload', [False, True], False),
    _ob('legacy-download', [False, True], False),
]
# interactions: only the names that interact, crossed with every subset
OBLIGATIONS.append(dict(
    id='C15.upload-x', impl='forward', params=_P, cases=[('upload', False), ('upload', True)],
    pre=['0 <= idx < %d' % _space('upload'), '-1 <= full_idx <= 4'],
    splits=[['idx == %d' % NAMES['upload'][0].index(nm)] for nm in ('ChecksumAlgorithm', 'ChecksumCRC32', 'ChecksumSHA256',
                                                                   'ChecksumType', 'MpuObjectSize', 'ACL')],
    timeout=(170, 900),
    bounds='the interacting arguments x every subset of {ChecksumAlgorithm, one of 5 full-object checksums, '
           'ChecksumType, MpuObjectSize} x client when_supported / when_required x single / multipart',
    encodes=['UploadSubmissionTask._submit_multipart_request checksum handling', 'set_default_checksum_algorithm'],
    assumptions=['installed botocore S3 model as oracle']))
