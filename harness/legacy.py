"""legacy s3transfer.S3Transfer / MultipartUploader / MultipartDownloader over the fakes (serial pool)"""
import concurrent.futures as cf

import s3transfer as S

from harness import common as H
from vlib import fakes as F

S.random_file_extension = lambda num_digits=8: 'TMPSUFFX'
TEMP = H.DEST + '.TMPSUFFX'


class SerialPool:
    """stand-in for ThreadPoolExecutor in the legacy classes (constructor parameter executor_cls): runs inline"""

    def __init__(self, max_workers=None):
        pass

    def __enter__(self):
        return self

    def __exit__(self, *a):
        return False

    def map(self, fn, *its):
        return [fn(*a) for a in zip(*its)]

    def submit(self, fn, *a, **k):
        f = cf.Future()
        try:
            f.set_result(fn(*a, **k))
        except Exception as e:  # noqa
            f.set_exception(e)
        return f


_REAL_MD = S.MultipartDownloader
_REAL_MU = S.MultipartUploader


class SerialMultipartDownloader(_REAL_MD):
    def __init__(self, client, config, osutil, executor_cls=SerialPool):
        _REAL_MD.__init__(self, client, config, osutil, executor_cls)


class SerialMultipartUploader(_REAL_MU):
    def __init__(self, client, config, osutil, executor_cls=SerialPool):
        _REAL_MU.__init__(self, client, config, osutil, executor_cls)


S.MultipartUploader = SerialMultipartUploader
# S3Transfer._ranged_download / _multipart_upload look the classes up by name at call time
S.MultipartDownloader = SerialMultipartDownloader


def legacy_os(fs, size, env):
    class LegacyOS(S.OSUtils):
        def get_file_size(self, filename):
            return size

        def open_file_chunk_reader(self, filename, start_byte, size_, callback):
            return S.ReadFileChunk(F.FakeFile(size, start_byte, env, 'src'), start_byte, size_, size, callback,
                                   enable_callback=False)

        def open(self, filename, mode):
            idx = fs.op('open', filename)
            fs.files[filename] = []
            f = F.FSFile(fs, filename)
            fs.done('open', idx)
            return f

        def remove_file(self, filename):
            idx = fs.op('remove', filename)
            fs.files.pop(filename, None)
            fs.done('remove', idx)

        def rename_file(self, cur, new):
            idx = fs.op('rename', cur)
            if cur not in fs.files:
                raise OSError('rename: no such file')
            fs.files[new] = fs.files.pop(cur)
            if new == fs.dest:
                fs.renamed = True
            fs.done('rename', idx)
    return LegacyOS()


def download(size, thr, chunk, fault_at=-1, phase=0, prev=False, stream_faults=(), attempts=2, extra_args=None,
             short_reads=False, nd=()):
    c = H.Ctx()
    env = c.env = F.Env(fault_at, phase, F.Nondet(nd))
    s3 = c.s3 = F.FakeS3(env, size=size, stream_faults=stream_faults, short_reads=short_reads)
    fs = c.fs = F.FakeFS(env, dest=H.DEST, prev=prev, total=size)
    cfg = S.TransferConfig(multipart_threshold=thr, multipart_chunksize=chunk, max_concurrency=1,
                           num_download_attempts=attempts)
    t = S.S3Transfer(s3, cfg, legacy_os(fs, size, env))
    c.progress = []
    try:
        t.download_file('bkt', 'key', H.DEST, extra_args=extra_args, callback=c.progress.append)
        c.outcome = ('ok', None)
    except Exception as e:  # noqa
        c.outcome = ('exc', e)
    return c


def upload(size, thr, chunk, fault_at=-1, phase=0, extra_args=None):
    c = H.Ctx()
    env = c.env = F.Env(fault_at, phase)
    s3 = c.s3 = F.FakeS3(env)
    fs = c.fs = F.FakeFS(env)
    cfg = S.TransferConfig(multipart_threshold=thr, multipart_chunksize=chunk, max_concurrency=1)
    t = S.S3Transfer(s3, cfg, legacy_os(fs, size, env))
    # S3Transfer._multipart_upload builds MultipartUploader(client, config, osutil) with the default pool
    c.progress = []
    try:
        t.upload_file('/s/source', 'bkt', 'key', callback=c.progress.append, extra_args=extra_args)
        c.outcome = ('ok', None)
    except Exception as e:  # noqa
        c.outcome = ('exc', e)
    return c
