"""legacy s3transfer.S3Transfer / MultipartUploader / MultipartDownloader over the fakes (lazy pool model: the
order in which the pool's tasks run and complete is decided by symbolic choices)"""
import concurrent.futures as cf

import s3transfer as S

from harness import common as H
from vlib import fakes as F

S.random_file_extension = lambda num_digits=8: 'TMPSUFFX'
TEMP = H.DEST + '.TMPSUFFX'


class Stuck(BaseException):
    """the chosen schedule cannot be continued with nested (LIFO) runs - the run is pruned, never judged"""


class Lazy:
    """state of the lazy pool model for one run: symbolic choices decide which pending task runs next"""
    choices = []
    k = 0
    pools = []
    order = 0

    @classmethod
    def reset(cls, choices=()):
        cls.choices = list(choices)
        cls.k = 0
        cls.pools = []
        cls.order = 0

    @classmethod
    def choose(cls, n):
        if n <= 1 or cls.k >= len(cls.choices):
            return 0
        c = cls.choices[cls.k]
        cls.k += 1
        for i in range(n - 1):
            if c == i:
                return i
        return n - 1

    @classmethod
    def pending(cls, pool=None):
        return [f for p in cls.pools if pool is None or p is pool for f in p.futures if not f.started]

    @classmethod
    def run_some(cls, pool=None):
        """start one pending task (of `pool`, or of any pool) and run it to completion on top of the current stack;
        False if there is none"""
        pend = cls.pending(pool)
        if not pend:
            return False
        f = pend[cls.choose(len(pend))]
        f.started = True
        try:
            r = f.thunk()
        except Exception as e:  # noqa
            cls.order += 1
            f.order = cls.order
            f.set_exception(e)
        else:
            cls.order += 1
            f.order = cls.order
            f.set_result(r)
        return True


class LazyFuture(cf.Future):
    def __init__(self, thunk, pool=None):
        cf.Future.__init__(self)
        self.pool = pool
        self.thunk = thunk
        self.started = False
        self.order = None

    def _force(self):
        while not self.done():
            # a waiter for a task of some pool lets THAT pool's pending tasks run (any of them, by choice)
            if self.started or not Lazy.run_some(self.pool):
                raise Stuck()     # waits for a task that is suspended further up this stack

    def result(self, timeout=None):
        self._force()
        return cf.Future.result(self, 0)

    def exception(self, timeout=None):
        self._force()
        return cf.Future.exception(self, 0)


class SerialPool:
    """stand-in for ThreadPoolExecutor in the legacy classes (constructor parameter executor_cls).  LAZY model: a
    submitted task does not run until somebody waits (result(), map iteration, wait(), as_completed(), leaving the
    with-block); then a pending task picked by the next symbolic choice runs to completion (nested on the waiter's
    stack).  With no choices left the order is submission order - the old serial behaviour.  Every order in which a
    real pool can COMPLETE its tasks one after the other is reachable; overlapping executions are reachable as far as
    nesting expresses them (a task blocked on the model queue runs other tasks meanwhile)."""

    def __init__(self, max_workers=None):
        self.futures = []
        Lazy.pools.append(self)

    def __enter__(self):
        return self

    def __exit__(self, *a):
        self.shutdown()
        return False

    def shutdown(self, wait=True, **kw):
        while Lazy.run_some(self):
            pass
        if any(not f.done() for f in self.futures):
            raise Stuck()

    def map(self, fn, *its):
        fs = [self.submit(fn, *a) for a in zip(*its)]

        def results():
            for f in fs:
                yield f.result()
        return results()

    def submit(self, fn, *a, **k):
        f = LazyFuture(lambda: fn(*a, **k), self)
        self.futures.append(f)
        return f


def lazy_wait(fs, timeout=None, return_when='ALL_COMPLETED'):
    fs = list(fs)
    while True:
        done = [f for f in fs if f.done()]
        if return_when == cf.FIRST_COMPLETED and done:
            break
        if return_when == cf.FIRST_EXCEPTION and any(cf.Future.exception(f, 0) is not None for f in done):
            break
        if len(done) == len(fs):
            break
        if not Lazy.run_some():
            raise Stuck()
    return cf._base.DoneAndNotDoneFutures(set(done), set(fs) - set(done))


def lazy_as_completed(fs, timeout=None):
    fs = list(fs)
    seen = []
    while len(seen) < len(fs):
        ready = sorted((f for f in fs if f.done() and f not in seen), key=lambda f: f.order)
        if not ready:
            if not Lazy.run_some():
                raise Stuck()
            continue
        for f in ready:
            seen.append(f)
            yield f


class ModelShutdownQueue(S.ShutdownQueue):
    """the real ShutdownQueue of the legacy downloader; only BLOCKING is modelled: an empty get / a full put lets
    another pending task run (nested) instead of sleeping"""

    def put(self, item):
        while self.maxsize > 0 and self.qsize() >= self.maxsize and not getattr(self, '_shutdown', False):
            if not Lazy.run_some():
                raise Stuck()
        return S.ShutdownQueue.put(self, item)

    def get(self, *a, **k):
        while self.empty():
            if not Lazy.run_some():
                raise Stuck()
        return S.ShutdownQueue.get(self, *a, **k)


class _CF:
    """what s3transfer/__init__.py uses of concurrent.futures, over the lazy pool"""
    ThreadPoolExecutor = SerialPool
    wait = staticmethod(lazy_wait)
    as_completed = staticmethod(lazy_as_completed)
    FIRST_COMPLETED = cf.FIRST_COMPLETED
    FIRST_EXCEPTION = cf.FIRST_EXCEPTION
    ALL_COMPLETED = cf.ALL_COMPLETED
    Future = cf.Future


class _Concurrent:
    futures = _CF


S.concurrent = _Concurrent


_REAL_MD = S.MultipartDownloader
_REAL_MU = S.MultipartUploader


class SerialMultipartDownloader(_REAL_MD):
    def __init__(self, client, config, osutil, executor_cls=SerialPool):
        _REAL_MD.__init__(self, client, config, osutil, executor_cls)
        if hasattr(self, '_ioqueue'):
            self._ioqueue = ModelShutdownQueue(getattr(config, 'max_io_queue', 0))


class SerialMultipartUploader(_REAL_MU):
    def __init__(self, client, config, osutil, executor_cls=SerialPool):
        _REAL_MU.__init__(self, client, config, osutil, executor_cls)


S.MultipartUploader = SerialMultipartUploader
# S3Transfer._ranged_download / _multipart_upload look the classes up by name at call time
S.MultipartDownloader = SerialMultipartDownloader


def legacy_os(fs, size, env):
    class LegacyOS(S.OSUtils):
        def get_file_size(self, filename):
            return size

        def open_file_chunk_reader(self, filename, start_byte, size_, callback):
            return S.ReadFileChunk(F.FakeFile(size, start_byte, env, 'src'), start_byte, size_, size, callback,
                                   enable_callback=False)

        def open(self, filename, mode):
            idx = fs.op('open', filename)
            fs.files[filename] = []
            f = F.FSFile(fs, filename)
            fs.done('open', idx)
            return f

        def remove_file(self, filename):
            idx = fs.op('remove', filename)
            fs.files.pop(filename, None)
            fs.done('remove', idx)

        def rename_file(self, cur, new):
            idx = fs.op('rename', cur)
            if cur not in fs.files:
                raise OSError('rename: no such file')
            fs.files[new] = fs.files.pop(cur)
            if new == fs.dest:
                fs.renamed = True
            fs.done('rename', idx)
    return LegacyOS()


def download(size, thr, chunk, fault_at=-1, phase=0, prev=False, stream_faults=(), attempts=2, extra_args=None,
             short_reads=False, nd=(), choices=()):
    Lazy.reset(choices)
    c = H.Ctx()
    env = c.env = F.Env(fault_at, phase, F.Nondet(nd))
    s3 = c.s3 = F.FakeS3(env, size=size, stream_faults=stream_faults, short_reads=short_reads)
    fs = c.fs = F.FakeFS(env, dest=H.DEST, prev=prev, total=size)
    cfg = S.TransferConfig(multipart_threshold=thr, multipart_chunksize=chunk, max_concurrency=1,
                           num_download_attempts=attempts)
    t = S.S3Transfer(s3, cfg, legacy_os(fs, size, env))
    c.progress = []
    try:
        t.download_file('bkt', 'key', H.DEST, extra_args=extra_args, callback=c.progress.append)
        c.outcome = ('ok', None)
    except Stuck:
        c.outcome = ('stuck', None)
    except Exception as e:  # noqa
        c.outcome = ('exc', e)
    return c


def upload(size, thr, chunk, fault_at=-1, phase=0, extra_args=None, choices=()):
    Lazy.reset(choices)
    c = H.Ctx()
    env = c.env = F.Env(fault_at, phase)
    s3 = c.s3 = F.FakeS3(env)
    fs = c.fs = F.FakeFS(env)
    cfg = S.TransferConfig(multipart_threshold=thr, multipart_chunksize=chunk, max_concurrency=1)
    t = S.S3Transfer(s3, cfg, legacy_os(fs, size, env))
    # S3Transfer._multipart_upload builds MultipartUploader(client, config, osutil) with the default pool
    c.progress = []
    try:
        t.upload_file('/s/source', 'bkt', 'key', callback=c.progress.append, extra_args=extra_args)
        c.outcome = ('ok', None)
    except Stuck:
        c.outcome = ('stuck', None)
    except Exception as e:  # noqa
        c.outcome = ('exc', e)
    return c
