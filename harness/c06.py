"""C06 — file downloads are published atomically and leave no temporary files"""
from harness import faults as FT
from harness import common as H
from harness import legacy as L
from vlib import fakes as F

# private-attribute groups (vlib/layout.py) the obligations of this module depend on
LAYOUT = ['manager', 'coord', 'task', 'bex', 'tasksem', 'sws'] + ['legacy']

EXPLANATION = (
    'C06: downloads to a file path run through the real code over an in-memory file system that evaluates the '
    'crash-point invariant after EVERY file-system operation (destination name absent / previous content / complete '
    'object, never partial), with one fault at a symbolic index over all environment calls (open / write / close / '
    'rename / remove / every request), destination pre-existing or not; at future-done no file other than the '
    'destination remains and after a failure the previous content is intact.  Front ends: TransferManager, legacy '
    'S3Transfer.download_file (single and ranged, serial pool), process-pool worker/submitter in-process (see C19).')

faulted = FT.faulted
faulted_kind = FT.faulted_kind


def two_faults(mode, prev, size, thr, chunk, io, f1, f2):
    """C06.ff: download to a path with TWO faults (f1 < f2, both before the effect) at symbolic environment calls -
    e.g. a write that fails and then a close that fails again while the cleanups run"""
    c = H.run_download('path', size, thr, chunk, io, fault_at=f1, fault_at2=f2, prev=prev, subs=1)
    if any(k == 'fs.remove' for _, k in c.env.all_delivered):
        return '~'       # a failing remove is not among the faults the statement quantifies over
    return FT.pick(FT.judge(c, 'down-path', size, thr, prev=prev), 'c06')


def legacy_sched(mode, prev, size, thr, chunk, fault_at, phase, c0, c1, c2):
    """C06.2s: the legacy ranged download with the pool's tasks (part downloads, the IO writer) started and completed
    in an order decided by symbolic choices (lazy pool model, harness/legacy.py)"""
    return legacy(mode, prev, size, thr, chunk, fault_at, phase, (c0, c1, c2))


def legacy(mode, prev, size, thr, chunk, fault_at, phase, choices=()):
    c = L.download(size, thr, chunk, fault_at, phase, prev=prev, choices=choices)
    st, val = c.outcome
    if st == 'stuck':
        return '~'
    ok = st == 'ok'
    fs = c.fs
    if fs.bad:
        return 'c06: legacy ' + fs.bad
    if c.env.delivered is not None and ok:
        return 'c06: legacy download reports success although a step failed'
    if c.env.delivered is None and not ok:
        return 'c06: legacy download failed although nothing failed'
    names = set(fs.files)
    d = fs.files.get(H.DEST)
    if names - {H.DEST}:
        if not (c.env.delivered is not None and c.env.delivered[1] == 'fs.remove'):
            return 'c06: legacy temporary file left behind'
    if ok:
        if d is None or d == F.FakeFS.PREV or F.written_ok_seekable(d, size) is not None:
            return 'c06: legacy success but destination not the complete object'
    else:
        if c.env.delivered[1] == 'fs.rename' and phase == 1:
            return None
        if prev and d != F.FakeFS.PREV:
            return 'c06: legacy previous destination content lost after a failure'
        if not prev and d is not None:
            return 'c06: legacy destination appeared although the download failed'
    return None


OBLIGATIONS = FT.fault_obligations('c06', 'C06', which=['down-path']) + [
    dict(id='C06.ff', impl='two_faults', params='size: int, thr: int, chunk: int, io: int, f1: int, f2: int',
         cases=[('single', False), ('single', True), ('ranged', False)],
         pre=['0 <= f1 < f2 <= 24', '1 <= io', '1 <= chunk', '1 <= thr'],
         splits=[['0 <= size < thr', 'size <= io', 'chunk == 1', 'f1 <= 6'], ['0 <= size < thr', 'size <= io', 'chunk == 1', 'f1 > 6'],
                 ['thr <= size', 'chunk < size <= 2 * chunk', 'chunk <= io', 'f1 <= 6'],
                 ['thr <= size', 'chunk < size <= 2 * chunk', 'chunk <= io', '6 < f1 <= 12'],
                 ['thr <= size', 'chunk < size <= 2 * chunk', 'chunk <= io', '12 < f1']],
         timeout=(170, 900),
         bounds='download to a path (single GET of one chunk / 2 ranged parts), two faults at symbolic environment-call '
                'indices f1 < f2 <= 24 (a failing remove is excluded)',
         encodes=['TransferCoordinator._run_failure_cleanups / _run_callbacks', 'DownloadFilenameOutputManager cleanups',
                  'IORenameFileTask'], assumptions=['S1', 'S2', 'identity-content data']),
    dict(id='C06.2', impl='legacy', params='size: int, thr: int, chunk: int, fault_at: int, phase: int',
         cases=[('single', False), ('single', True), ('ranged', False), ('ranged', True)],
         pre=['-1 <= fault_at <= 30', 'phase == 0'],
         splits=[['0 <= size < thr', 'size <= 2 * 8192', 'chunk == 1']],
         timeout=(150, 600),
         bounds='legacy S3Transfer.download_file; single GET <= 2 reads of 8 KiB; one fault at a symbolic '
                'environment-call index',
         encodes=['s3transfer.S3Transfer.download_file', '_get_object', '_do_get_object'],
         assumptions=['S1', 'identity-content data']),
    dict(id='C06.2r', impl='legacy', params='size: int, thr: int, chunk: int, fault_at: int, phase: int',
         cases=[('ranged', False), ('ranged', True)],
         pre=['-1 <= fault_at <= 30', 'phase == 0', '1 <= thr <= size', '1 <= chunk <= 16384', 'chunk < size <= 2 * chunk'],
         timeout=(150, 600),
         bounds='legacy ranged download through MultipartDownloader with a serial pool (both halves run one after '
                'the other through the real ShutdownQueue): 2 parts of <= 16 KiB; one fault at a symbolic index',
         encodes=['s3transfer.MultipartDownloader.download_file', '_download_range', '_perform_io_writes',
                  'ShutdownQueue'],
         assumptions=['S1', 'S2', 'lazy pool model in submission order']),
    dict(id='C06.2s', impl='legacy_sched',
         params='size: int, thr: int, chunk: int, fault_at: int, phase: int, c0: int, c1: int, c2: int',
         cases=[('ranged', False), ('ranged', True)],
         pre=['-1 <= fault_at <= 30', 'phase == 0', '1 <= thr <= size', '1 <= chunk <= 16384', 'chunk < size <= 2 * chunk',
              '0 <= c0 <= 2 and 0 <= c1 <= 2 and 0 <= c2 <= 2'],
         splits=[['c0 == 0'], ['c0 >= 1']],
         timeout=(150, 900),
         bounds='as C06.2r, with the order in which the pool\'s tasks (IO writer, part downloads) start and complete '
                'decided by 3 symbolic choices: parts before the writer, the writer first (blocked on the empty queue '
                'while the parts run), parts in either order',
         encodes=['s3transfer.MultipartDownloader.download_file (concurrent.futures.wait / return_when)',
                  '_process_future_results', '_download_file_as_future', '_perform_io_writes', 'ShutdownQueue'],
         assumptions=['S1', 'S2', 'lazy pool model: tasks run to completion, overlapping only by nesting at a blocking '
                      'queue operation (LIFO)']),
]
# the single-GET cases only make sense for the 'single' label
[o for o in OBLIGATIONS if o['id'] == 'C06.2'][0]['cases'] = [('single', False), ('single', True)]

OBLIGATIONS += [dict(
    id='C06.fk-down-path-prev', impl='faulted_kind', params=FT.PARAMS + ', fk: int', cases=[('c06', 'down-path', True)],
    pre=FT.BASE + ['fk == 1', 'phase == 0'], splits=[FT._DN1, FT._DN2], timeout=(170, 900),
    bounds='as C06.f-down-path-prev, with the injected fault an OSError (what a failing open / write / close / rename '
           'really raises): recovery code keyed on OSError runs.  OSUtils.rename_file itself is executed from the '
           'source - only compat.rename_file and the os.path.isfile / exists / os.remove it may reach are answered by '
           'the fake file system',
    encodes=['OSUtils.rename_file', 'IORenameFileTask._main', 'DownloadFilenameOutputManager', 'Task.__call__'],
    assumptions=['S1', 'S2', 'identity-content data', 'serial schedule (NonThreadedExecutor)',
                 'rename primitive = os.replace semantics (atomic)'])]

from harness.nsrun import ns_fault_obligations, nsfaulted  # noqa: E402
OBLIGATIONS += ns_fault_obligations('c06', 'C06', ['down-path'])

# C06.5: the temporary name itself (translated from the source into SMT-LIB, decided by cvc5)
from harness.tempname import OB_TEMPNAME  # noqa: E402
SMT_OBLIGATIONS = [dict(OB_TEMPNAME, id='C06.5')]
