"""C12 — semaphores: sliding-window semantics and permit conservation"""
from harness import common as H

# private-attribute groups (vlib/layout.py) the obligations of this module depend on
LAYOUT = ['manager', 'coord', 'task', 'bex', 'tasksem', 'sws']

EXPLANATION = (
    'C12: the real SlidingWindowSemaphore is checked (a) by one inductive step from an ARBITRARY state satisfying the '
    'representation invariant (sequence numbers and capacity unbounded symbolic integers, <= 2 tags, <= 2 pending '
    'releases per tag) against a reference model, for acquire(blocking=False) and release with arbitrary token and '
    'known/unknown tag, (b) by bounded public-API histories (<= 4 quick / 6 thorough operations, symbolic op kind, '
    'tag and token) against the same model, (c) TaskSemaphore conservation, and (d) at quiescence of end-to-end '
    'transfers all five manager semaphores are back at full capacity.  Blocking acquirers: see C04 (CO engine).')


def probe():
    from s3transfer.utils import SlidingWindowSemaphore
    s = SlidingWindowSemaphore(1)
    return [n for n in ('_count', '_tag_sequences', '_lowest_sequence', '_pending_release') if not hasattr(s, n)]


TAGS = ['a', 'b']


def _install(C, st):
    """st: {tag: (next, lowest, [pending descending])}"""
    from s3transfer.utils import SlidingWindowSemaphore
    s = SlidingWindowSemaphore(C)
    used = 0
    for t, (nx, lo, pend) in st.items():
        s._tag_sequences[t] = nx
        s._lowest_sequence[t] = lo
        if pend:
            s._pending_release[t] = list(pend)
        used = used + (nx - lo)
    s._count = C - used
    return s


def _snapshot(s):
    out = {}
    for t in list(s._tag_sequences.keys()):
        out[t] = (s._tag_sequences[t], s._lowest_sequence.get(t), list(s._pending_release.get(t, [])))
    return s._count, out


def step_acquire(C, na, la, nb, lb):
    """C12.1 acquire(blocking=False) on tag a from an arbitrary state of tags a (maybe unused) and b"""
    from s3transfer.utils import NoResourcesAvailable
    st = {'b': (nb, lb, [])}
    if na > 0:
        st['a'] = (na, la, [])
    s = _install(C, st)
    free = C - (na - la) - (nb - lb)
    before = _snapshot(s)
    try:
        tok = s.acquire('a', blocking=False)
    except NoResourcesAvailable:
        if free != 0:
            return 'acquire: refused although capacity is free'
        if _snapshot(s) != before:
            return 'acquire: refused acquire changed the state'
        return None
    if free == 0:
        return 'acquire: granted at zero capacity'
    if tok != na:
        return 'acquire: token is not the next sequence number'
    if s.current_count() != free - 1:
        return 'acquire: free capacity not decremented by one'
    if s._tag_sequences['a'] != na + 1 or s._lowest_sequence['a'] != la:
        return 'acquire: window bookkeeping wrong'
    if _snapshot(s)[1].get('b') != (nb, lb, []):
        return 'acquire: other tag disturbed'
    return None


def step_release(npend, known, C, nx, lo, p1, p2, tok, nb, lb):
    """C12.1 release(tag, tok) with an arbitrary token from an arbitrary state: tag a has tokens [lo, nx) outstanding
    of which p1 > p2 (npend of them) are already released out of order"""
    pend = [p1, p2][:npend]
    if npend == 1 and not (lo < p1 < nx):
        return '~'
    if npend == 2 and not (lo < p2 < p1 < nx):
        return '~'
    st = {'a': (nx, lo, pend), 'b': (nb, lb, [])}
    s = _install(C, st)
    free = C - (nx - lo) - (nb - lb)
    before = _snapshot(s)
    tag = 'a' if known else 'zz'
    try:
        s.release(tag, tok)
        raised = False
    except ValueError:
        raised = True
    after = _snapshot(s)
    if not known:
        if not raised:
            return 'release: unknown tag accepted'
        if after != before:
            return 'release: rejected release changed the state'
        return None
    if tok < lo or tok >= nx:
        if not raised:
            return 'release: never-issued / already-freed token accepted'
        if after != before:
            return 'release: rejected release changed the state'
        return None
    if tok in pend:
        return '~'      # double release of a pending token: outside the contract, not judged
    if raised:
        return 'release: valid token rejected'
    # reference model: released set = pend + {tok}; lowest advances over the contiguous released prefix
    rel = pend + [tok]
    new_lo = lo
    moved = True
    while moved:
        moved = False
        for r in rel:
            if r == new_lo:
                new_lo = new_lo + 1
                moved = True
    if s._lowest_sequence['a'] != new_lo:
        return 'release: lowest unreleased token wrong'
    if s.current_count() != free + (new_lo - lo):
        return 'release: free capacity is not count minus the window widths'
    if s._tag_sequences['a'] != nx:
        return 'release: next sequence number changed'
    left = [r for r in rel if r >= new_lo]
    got = list(s._pending_release.get('a', []))
    if sorted(got) != sorted(left):
        return 'release: pending releases wrong'
    for i in range(len(got) - 1):
        if not got[i] > got[i + 1]:
            return 'release: pending releases not strictly descending'
    if after[1].get('b') != (nb, lb, []):
        return 'release: other tag disturbed'
    return None


class _Model:
    def __init__(self, C):
        self.C = C
        self.next = {}
        self.out = {}      # tag -> set of outstanding (unreleased) tokens

    def free(self):
        used = 0
        for t in self.next:
            lo = self.lowest(t)
            used += self.next[t] - lo
        return self.C - used

    def lowest(self, t):
        o = self.out[t]
        return min(o) if o else self.next[t]


def history(n, C, k0, t0, x0, k1, t1, x1, k2, t2, x2, k3, t3, x3, k4, t4, x4, k5, t5, x5):
    """C12.2 bounded history through the public API against the reference model.
    op i: kind k (0 acquire non-blocking, 1 release), tag index t (0,1; 2 = unknown tag for release), token x"""
    from s3transfer.utils import NoResourcesAvailable, SlidingWindowSemaphore
    s = SlidingWindowSemaphore(C)
    m = _Model(C)
    ops = [(k0, t0, x0), (k1, t1, x1), (k2, t2, x2), (k3, t3, x3), (k4, t4, x4), (k5, t5, x5)][:n]
    for k, t, x in ops:
        tag = 'a' if t == 0 else ('b' if t == 1 else 'zz')
        if k == 0:
            if t == 2:
                tag = 'a'
            try:
                tok = s.acquire(tag, blocking=False)
                ok = True
            except NoResourcesAvailable:
                ok = False
            if m.free() == 0:
                if ok:
                    return 'history: acquire granted at zero capacity'
            else:
                if not ok:
                    return 'history: acquire refused with free capacity'
                want = m.next.get(tag, 0)
                if tok != want:
                    return 'history: token not the next sequence number'
                m.next[tag] = want + 1
                m.out.setdefault(tag, set()).add(want)
        else:
            try:
                s.release(tag, x)
                ok = True
            except ValueError:
                ok = False
            valid = tag in m.next and x in m.out[tag]
            if tag in m.next and not valid and m.lowest(tag) <= x < m.next[tag]:
                # already released but still inside the window: outside the contract; stop judging this history
                return '~'
            if valid != ok:
                return 'history: release accepted/rejected wrongly'
            if valid:
                m.out[tag].discard(x)
        if s.current_count() != m.free():
            return 'history: free capacity differs from the model'
    return None


def task_semaphore(n, C, k0, k1, k2, k3, k4, k5):
    """C12.4 TaskSemaphore conservation: non-blocking acquire fails exactly at zero, release adds one"""
    from s3transfer.utils import NoResourcesAvailable, TaskSemaphore
    s = TaskSemaphore(C)
    free = C
    held = 0
    for k in [k0, k1, k2, k3, k4, k5][:n]:
        if k == 0:
            try:
                s.acquire('t', blocking=False)
                ok = True
            except NoResourcesAvailable:
                ok = False
            if ok != (free > 0):
                return 'tasksem: acquire result inconsistent with the permits'
            if ok:
                free -= 1
                held += 1
        elif held > 0:
            s.release('t', None)
            free += 1
            held -= 1
        if s._semaphore._value != free:
            return 'tasksem: permits not conserved'
    return None


def manager_sems_full(m, cfg):
    """all five semaphores of a manager at full capacity"""
    from s3transfer.futures import IN_MEMORY_DOWNLOAD_TAG, IN_MEMORY_UPLOAD_TAG
    def val(ts):
        return ts._semaphore._value
    if val(m._request_executor._semaphore) != cfg.max_request_queue_size:
        return 'quiescence: request queue permits not returned'
    if val(m._submission_executor._semaphore) != cfg.max_submission_queue_size:
        return 'quiescence: submission queue permits not returned'
    if val(m._io_executor._semaphore) != cfg.max_io_queue_size:
        return 'quiescence: io queue permits not returned'
    tags = m._request_executor._tag_semaphores
    if val(tags[IN_MEMORY_UPLOAD_TAG]) != cfg.max_in_memory_upload_chunks:
        return 'quiescence: in-memory upload permits not returned'
    if tags[IN_MEMORY_DOWNLOAD_TAG].current_count() != cfg.max_in_memory_download_chunks:
        return 'quiescence: in-memory download window not fully released'
    return None


def quiescence(what, size, thr, chunk, io, f1):
    """C12.5: after a transfer (stream upload / non-seekable ranged download with an optional stream fault) has
    finished, every semaphore of the manager is back at full capacity"""
    if what == 'download':
        c = H.run_download('stream', size, thr, chunk, io, stream_faults=[(f1, True)], attempts=2, subs=0)
    elif what == 'download-fail':
        c = H.run_download('stream', size, thr, chunk, io, stream_faults=[(f1, False)], attempts=2, subs=0)
    else:
        if chunk > 5 * 1024 ** 3:
            return '~'
        c = H.run_upload('nonseekable', size, thr, chunk, subs=0)
    if c.outcome[0] not in ('ok', 'exc'):
        return 'quiescence: transfer not finished'
    return manager_sems_full(c.manager, c.cfg)


_H = ('C: int, k0: int, t0: int, x0: int, k1: int, t1: int, x1: int, k2: int, t2: int, x2: int, '
      'k3: int, t3: int, x3: int, k4: int, t4: int, x4: int, k5: int, t5: int, x5: int')
_HPRE = ['1 <= C <= 3'] + ['0 <= k%d <= 1 and 0 <= t%d <= 2 and -1 <= x%d <= 3' % (i, i, i) for i in range(6)]
_LAY = ['_count', '_tag_sequences', '_lowest_sequence', '_pending_release']
OBLIGATIONS = [
    dict(id='C12.1a', impl='step_acquire', params='C: int, na: int, la: int, nb: int, lb: int', layout=_LAY,
         pre=['1 <= C', '0 <= la <= na', '0 <= lb <= nb', '(na - la) + (nb - lb) <= C', 'la == 0 or na > 0'],
         timeout=(60, 300), bounds='none: capacity and sequence numbers unbounded; 2 tags; no pending releases',
         encodes=['SlidingWindowSemaphore.acquire', 'current_count'], assumptions=['S1', 'representation invariant']),
    dict(id='C12.1r', impl='step_release',
         params='C: int, nx: int, lo: int, p1: int, p2: int, tok: int, nb: int, lb: int', layout=_LAY,
         cases=[(0, True), (1, True), (2, True), (1, False)],
         pre=['1 <= C', '0 <= lo <= nx', '0 <= lb <= nb', '(nx - lo) + (nb - lb) <= C'],
         timeout=(90, 300),
         bounds='none on capacity / sequence numbers / token; <= 2 pending out-of-order releases; 2 tags',
         encodes=['SlidingWindowSemaphore.release'], assumptions=['S1', 'representation invariant']),
    dict(id='C12.2', impl='history', params=_H, pre=_HPRE, cases=[(2,), (3,)], cases_thorough=[(4,), (5,)], splits_thorough=[['k0 == 0', 'k1 == 0'], ['k0 == 0', 'k1 == 1'], ['k0 == 1']],
         timeout=(150, 1500), bounds='<= 4 (thorough 6) operations, capacity 1..3, 2 tags + unknown tag, tokens -1..3',
         encodes=['SlidingWindowSemaphore.acquire', 'release', 'current_count'], assumptions=['S1']),
    dict(id='C12.4', impl='task_semaphore', params='C: int, k0: int, k1: int, k2: int, k3: int, k4: int, k5: int',
         pre=['1 <= C <= 3'] + ['0 <= k%d <= 1' % i for i in range(6)], cases=[(6,)], timeout=(60, 300),
         bounds='6 operations, capacity 1..3', encodes=['TaskSemaphore.acquire', 'TaskSemaphore.release'],
         assumptions=['stdlib threading.Semaphore']),
    dict(id='C12.5', impl='quiescence', params='size: int, thr: int, chunk: int, io: int, f1: int',
         cases=[('download',), ('download-fail',), ('upload',)],
         pre=['1 <= thr <= size', '1 <= chunk', 'size <= 2 * chunk', '1 <= io', 'chunk <= io', '-1 <= f1 <= chunk'],
         timeout=(150, 600), bounds='<= 2 parts; one stream fault (retryable / fatal) at a symbolic position',
         encodes=['BoundedExecutor.submit release callbacks', 'TransferManager executors'], assumptions=['S1', 'S2']),
]

from harness.corace import OB_SEM, OB_SEMN, OB_SEMP, sliding_window_preempt, sliding_window_waiters  # noqa: E402
OBLIGATIONS += [dict(OB_SEM, id='C12.3', cases_thorough=[(1, 2), (1, 3), (2, 3), (2, 4), (2, 'UUtt'), (2, 'UUttt'), (1, 'Utt')])]
OBLIGATIONS += [dict(OB_SEMP, id='C12.3p')]
OBLIGATIONS += [dict(OB_SEMN, id='C12.3n')]
