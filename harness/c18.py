"""C18 — shutdown is a barrier; transfers sharing a manager are isolated"""
from harness import common as H
from harness import faults as FT
from harness import nsrun as N
from harness.c12 import manager_sems_full
from vlib import fakes as F
from vlib import ns

# private-attribute groups (vlib/layout.py) the obligations of this module depend on
LAYOUT = ['manager', 'coord', 'task', 'bex', 'tasksem', 'sws']

EXPLANATION = (
    'C18: three transfers of different types (stream upload, download to a path, copy / delete) share one real '
    'TransferManager over model executors (engine NS).  Which of them fails (a fault at a symbolic environment-call '
    'index lands in exactly one of them) or is cancelled (future.cancel() before a symbolic task start) is symbolic, '
    'as are the nested-start choices.  Oracle: every other transfer succeeds with its complete effect (own C01/C02 '
    'oracle), all semaphores are back at full capacity and no coordinator is tracked any more; then either a fresh '
    'transfer succeeds, or shutdown() returns with every future done, no task queued or running in any executor, and '
    'no request / write / callback stamped after it returned - including when the FIRST tracked transfer failed.')


def shared(after, size, thr, chunk, io, fault_at, phase, cancel_which, cancel_top, c0, c1, shutdown_top=-1):
    S = ns.Sched([c0, c1])
    lim = dict(max_request_concurrency=2, max_submission_concurrency=1)
    c = N.build('up-stream', size, thr, chunk, io, S, fault_at=fault_at, phase=phase, limits=lim, subs=1)
    env, m = c.env, c.manager
    # second and third transfer on the same manager (their own source / destination objects, same fake S3)
    c2 = H.Ctx()
    c2.manager, c2.env, c2.s3, c2.fs, c2.cfg = m, env, c.s3, c.fs, c.cfg
    c.s3.size = size
    c.fs.dest, c.fs.total = H.DEST, size
    sub2 = [F.RecSubscriber(env, 't2')]
    f2 = N.submit(c2, 'down-path', size, sub2, key='key2')
    sub3 = [F.RecSubscriber(env, 't3')]
    f3 = m.delete('bkt', 'key3', subscribers=sub3)
    futs = [c.future, f2, f3]
    cancelled = [False, False, False]
    err = None
    try:
        t = 0
        while True:
            if after in ('shutdown', 'shutdown-kbd') and t == shutdown_top:
                break          # the user calls shutdown() while transfers are still queued / running
            if cancel_which >= 0 and t == cancel_top:
                for i in range(3):
                    if cancel_which == i and not cancelled[i]:
                        cancelled[i] = True
                        futs[i].cancel()
            r = S.runnable()
            if not r:
                break
            r[S.choose(len(r))].start_next()
            t += 1
        if after == 'shutdown':
            m.shutdown()
            t_shutdown = env.clock
        elif after == 'shutdown-kbd':
            # Ctrl-C while shutdown() waits: everything unfinished is cancelled, and it is still a barrier
            S.interrupt_pending = True
            try:
                m.shutdown()
            except KeyboardInterrupt:
                cancelled = [True, True, True]
            S.interrupt_pending = False
            t_shutdown = env.clock
    except ns.Stuck:
        return '~'
    except ns.Deadlock as d:
        return '~' if S.stuck else 'c18: ' + str(d)
    if S.stuck:
        return '~'
    if S.deadlock:
        return 'c18: ' + S.deadlock
    outs = [H.outcome(f) for f in futs]
    for st, v in outs:
        if st not in ('ok', 'exc'):
            return 'c18: a transfer is not done at quiescence'
    # which transfer owned the fault?  the one whose result is the injected exception
    faulted = [st == 'exc' and isinstance(v, (F.Injected, H.RetriesExceededError)) for st, v in outs]
    if env.delivered is not None and not any(faulted) and not any(cancelled):
        return 'c18: a delivered fault failed no transfer'
    for i, (st, v) in enumerate(outs):
        if st == 'exc' and not faulted[i] and not (cancelled[i] and isinstance(v, H.CancelledError)):
            return 'c18: a transfer failed although neither a fault nor a cancel was aimed at it'
    if sum(1 for x in faulted if x) > 1:
        return 'c18: one fault failed more than one transfer'
    # effects of the successful ones
    if outs[0][0] == 'ok':
        blobs = c.s3.objects.get('key')
        if blobs is None or not F.tiles_in_order(F.segs_of(blobs), 0, size):
            return 'c18: upload succeeded with a wrong object'
    if outs[1][0] == 'ok':
        d = c.fs.files.get(H.DEST)
        if d is None or F.written_ok_seekable(d, size) is not None:
            return 'c18: download succeeded with a wrong destination'
    if outs[2][0] == 'ok' and c.s3.deleted != ['key3']:
        return 'c18: delete succeeded without exactly one DeleteObject'
    if c.fs.bad:
        return 'c18: ' + c.fs.bad
    for s in (c.subs[0], sub2[0], sub3[0]):
        if s.done != 1:
            return 'c18: on_done not exactly once for every transfer'
    if after in ('shutdown', 'shutdown-kbd'):
        if not S.quiescent() or not all(e.closed for e in S.execs):
            return 'c18: shutdown returned with tasks queued or running'
        if env.clock != t_shutdown:
            return 'c18: request / write / callback after shutdown returned'
        try:
            m.delete('bkt', 'late')
            return 'c18: manager accepted a transfer after shutdown'
        except RuntimeError:
            pass
        return None
    r = manager_sems_full(m, c.cfg)
    if r:
        return 'c18: ' + r[len('quiescence: '):]
    if m._coordinator_controller.tracked_transfer_coordinators:
        return 'c18: finished transfers still tracked'
    f4 = m.copy({'Bucket': 'srcbkt', 'Key': 'srckey'}, 'bkt', 'key4')
    try:
        S.drain()
    except (ns.Stuck, ns.Deadlock):
        return 'c18: fresh transfer got stuck'
    st, v = H.outcome(f4)
    if st == 'exc' and isinstance(v, F.Injected):
        return '~'      # the fault index lay beyond the three transfers and hit the fresh one
    if st != 'ok' or c.s3.check_object('key4', size):
        return 'c18: a fresh transfer after the mix did not succeed'
    return None


_P = ('size: int, thr: int, chunk: int, io: int, fault_at: int, phase: int, cancel_which: int, cancel_top: int, '
      'c0: int, c1: int')
_SH = ['1 <= thr <= size', '5 * 1024 ** 2 <= chunk <= 5 * 1024 ** 3', 'chunk < size <= 2 * chunk', 'io == chunk',
       '0 <= phase <= 1', '0 <= c0 <= 2 and 0 <= c1 <= 2']
def _ranges(lo, hi, w):
    return ['%d <= fault_at <= %d' % (a, min(a + w - 1, hi)) for a in range(lo, hi + 1, w)]


_NONE = [['fault_at == -1', 'phase == 0']]
_Z = ['c0 == 0', 'c1 == 0']
def shutdown_during_callback(transfer, at, size):
    """C18.cb: another thread calls shutdown() at a symbolic scheduling point of a single transfer whose on_done callback
    is slow - also the moment when the transfer is already finished and untracked but its callbacks are still running.
    Whenever shutdown() returns, nothing of the manager may happen afterwards."""
    S = ns.Sched([])
    c = N.build(transfer, size, size + 1, 5 * 1024 ** 2, size + 1, S, subs=1)
    c.subs[0].slow_done = True
    env, m = c.env, c.manager
    st = {'returned': None}

    def fire():
        m.shutdown()
        st['returned'] = env.clock
    S.cancel_at = at
    S.cancel_fn = fire
    try:
        S.drain()
        if st['returned'] is None:
            m.shutdown()
            st['returned'] = env.clock
    except ns.Stuck:
        return '~'
    except ns.Deadlock as d:
        return '~' if S.stuck else 'c18: ' + str(d)
    if S.stuck:
        return '~'
    if c.subs[0].done != 1:
        return 'c18: on_done not exactly once'
    if env.clock != st['returned']:
        return 'c18: request / write / callback after shutdown returned'
    if not S.quiescent():
        return 'c18: shutdown returned with tasks queued or running'
    return None


def kbd_shutdown(size, thr, chunk, io, shutdown_top, c0):
    """C18.kbd: Ctrl-C arrives while shutdown() (called before the shutdown_top-th task start) is waiting"""
    return shared('shutdown-kbd', size, thr, chunk, io, -1, 0, -1, 0, c0, 0, shutdown_top)


def early_shutdown(size, thr, chunk, io, fault_at, phase, shutdown_top, c0):
    """C18.early: shutdown() called before the shutdown_top-th task start, i.e. while transfers are still queued or
    running - the barrier then rests on wait() + the order in which the three executors are joined"""
    return shared('shutdown', size, thr, chunk, io, fault_at, phase, -1, 0, c0, 0, shutdown_top)


OBLIGATIONS = [
    dict(id='C18.cb', impl='shutdown_during_callback', params='at: int, size: int',
         cases=[('delete',), ('down-seekable',), ('up-path',)], pre=['-1 <= at <= 40', '1 <= size <= 100'],
         timeout=(170, 900),
         bounds='one single-request transfer with a slow on_done subscriber; shutdown() from another thread at a symbolic '
                'scheduling point (every environment call and the entry of on_done); schedules in which that shutdown '
                'could not return yet are pruned',
         encodes=['TransferManager._shutdown', 'TransferCoordinatorController', 'announce_done / done callbacks',
                  'BoundedExecutor.shutdown'], assumptions=['S1', 'nested (LIFO) schedules only']),
    dict(id='C18.kbd', impl='kbd_shutdown', params='size: int, thr: int, chunk: int, io: int, shutdown_top: int, c0: int',
         pre=_SH[:-2] + ['0 <= c0 <= 2', '0 <= shutdown_top <= 8'],
         splits=[['c0 == 0', 'shutdown_top <= 2'], ['c0 == 0', '2 < shutdown_top <= 5'], ['c0 == 0', '5 < shutdown_top']],
         splits_thorough=[['c0 == %d' % i] for i in range(3)], timeout=(170, 1200),
         bounds='3 transfers on one manager; shutdown() before a symbolic task start, interrupted by Ctrl-C in its wait',
         encodes=['TransferManager._shutdown (KeyboardInterrupt path)', 'TransferCoordinatorController.wait / cancel'],
         assumptions=['S1', 'S2', 'nested (LIFO) schedules only']),
    dict(id='C18.early', impl='early_shutdown',
         params='size: int, thr: int, chunk: int, io: int, fault_at: int, phase: int, shutdown_top: int, c0: int',
         pre=_SH[:-1] + ['0 <= phase <= 1', '0 <= c0 <= 2', '-1 <= fault_at <= 40', '0 <= shutdown_top <= 6'],
         splits=[['fault_at == -1', 'phase == 0', 'c0 == 0', 'shutdown_top <= 1']] +
                [[fr, 'c0 == 0', 'shutdown_top == 0'] for fr in _ranges(0, 11, 2)],
         splits_thorough=[['fault_at == -1', 'phase == 0']] + [[fr, st] for fr in _ranges(0, 39, 4)
                                                              for st in ('shutdown_top <= 2', 'shutdown_top > 2')],
         timeout=(170, 1500),
         bounds='3 transfers on one manager, shutdown() before a symbolic task start (quick: before the first), '
                'one fault at a symbolic environment call (quick 0..11) - includes the first tracked transfer failing '
                'while the others have not been submitted to the request stage yet',
         encodes=['TransferManager._shutdown', 'TransferCoordinatorController.wait (early exit on failure)',
                  'BoundedExecutor.shutdown order'], assumptions=['S1', 'S2', 'nested (LIFO) schedules only']),
    dict(id='C18.fault-shutdown', impl='shared', params=_P, cases=[('shutdown',)],
         pre=_SH + ['-1 <= fault_at <= 40', 'cancel_which == -1', 'cancel_top == 0'],
         splits=_NONE + [[fr] + _Z for fr in _ranges(0, 27, 4)],
         splits_thorough=_NONE + [[fr, 'c1 == 0'] for fr in _ranges(0, 40, 2)], timeout=(170, 1500),
         bounds='3 transfers (2-part stream upload, 2-part download to a path, delete) on one manager; one fault at a '
                'symbolic environment call (lands in whichever transfer issues that call) or none; then shutdown(); '
                'quick: no nested starts, faults 0..27; thorough: one symbolic nested-start choice, faults 0..40',
         encodes=['TransferManager._submit_transfer', '_shutdown', 'TransferCoordinatorController.wait / '
                  'remove_transfer_coordinator', 'BoundedExecutor.shutdown'],
         assumptions=['S1', 'S2', 'nested (LIFO) schedules only']),
    dict(id='C18.fault-fresh', impl='shared', params=_P, cases=[('fresh',)],
         pre=_SH + ['-1 <= fault_at <= 40', 'cancel_which == -1', 'cancel_top == 0'],
         splits=_NONE + [['0 <= fault_at <= 3'] + _Z, ['12 <= fault_at <= 14'] + _Z],
         splits_thorough=_NONE + [[fr, 'c1 == 0'] for fr in _ranges(0, 40, 2)], timeout=(170, 1500),
         bounds='as above, followed by a fresh transfer (copy) that must succeed; quick: faults 0..3 and 12..14',
         encodes=['TransferManager', 'semaphore release callbacks', 'TransferCoordinatorController'],
         assumptions=['S1', 'S2', 'nested (LIFO) schedules only']),
    dict(id='C18.cancel', impl='shared', params=_P, cases=[('shutdown',)], cases_thorough=[('shutdown',), ('fresh',)],
         pre=_SH + ['fault_at == -1', 'phase == 0', '0 <= cancel_which <= 2', '0 <= cancel_top <= 8', 'c1 == 0'],
         splits=[['cancel_which == %d' % w, 'cancel_top <= 2', 'c0 == 0'] for w in range(3)],
         splits_thorough=[['cancel_which == %d' % w, rg] for w in range(3) for rg in (
             'cancel_top <= 2', '2 < cancel_top <= 5', '5 < cancel_top')], timeout=(170, 1500),
         bounds='one of the three transfers cancelled before a symbolic task start (quick: the first three starts)',
         encodes=['TransferCoordinator.cancel', 'TransferManager._shutdown'], assumptions=['S1', 'S2', 'nested schedules']),
]

# C18.tmp: two downloads never share a temporary file (otherwise one transfer's cleanup removes the other's data)
from harness.tempname import OB_TEMPNAME  # noqa: E402
SMT_OBLIGATIONS = [dict(OB_TEMPNAME, id='C18.tmp')]
