"""Engine CO on the multipart-upload / multipart-copy protocol of ONE transfer: the real submission task and every
task it submits run as generator co-versions on their own model threads (arbitrary, also non-LIFO, interleavings at
statement level), over the in-memory S3 fake.  Closes part of the gap left by the nested-schedule engine."""
import s3transfer.copies as CP
import s3transfer.futures as FU
import s3transfer.tasks as TK
import s3transfer.upload as UP
from s3transfer.utils import CallArgs

from harness import common as H
from harness import corace  # noqa  (installs the TransferCoordinator / Task co-versions)
from vlib import co
from vlib import fakes as F

_TASK = ['__call__', '_execute_main', '_log_and_set_exception', '_wait_on_dependent_futures',
         '_wait_until_all_complete', '_get_all_main_kwargs', '_main', '_submit',
         '_wait_for_all_submitted_futures_to_complete']
# regenerate with the extended name set so that self._main / self._submit are dispatched through co_call
co.make_co(TK.Task, _TASK, TK)
co.make_co(TK.SubmissionTask, _TASK, TK)
_SHARED = ['_transfer_coordinator', 'request_executor', 'part_iterator', 'client.', 'upload_input_manager.']
FOUND_UP = co.make_co(UP.UploadSubmissionTask, ['_submit', '_submit_multipart_request', '_submit_upload_request'], UP,
                      _SHARED)
FOUND_CP = co.make_co(CP.CopySubmissionTask, ['_submit', '_submit_multipart_request', '_submit_copy_request'], CP,
                      _SHARED)


def probe():
    miss = []
    if '_submit_multipart_request' not in FOUND_UP:
        miss.append('UploadSubmissionTask._submit_multipart_request')
    if '_submit_multipart_request' not in FOUND_CP:
        miss.append('CopySubmissionTask._submit_multipart_request')
    return miss


class TaskFuture(co.CoFuture):
    def __init__(self):
        co.CoFuture.__init__(self)
        self.cbs = []

    def add_done_callback(self, fn):
        if self._done:
            fn()
        else:
            self.cbs.append(fn)


class CoExecutor:
    """stands for the request BoundedExecutor: every submitted task gets its own model thread"""

    def __init__(self, threads):
        self.threads = threads
        self.futures = []

    def submit(self, task, tag=None, block=True):
        fut = TaskFuture()
        fut.thread = len(self.threads)
        self.futures.append(fut)
        self.threads.append(self._run(task, fut))
        return fut

    def _run(self, task, fut):
        r = yield from co.co_call(task, '__call__')
        fut.finish(r)
        for cb in fut.cbs:
            cb()


def protocol(kind, t1, t2, size, thr, chunk, fault_at, phase, s1, s2):
    """kind: 'upload-seekable' | 'upload-stream' | 'copy'.  One fault at a symbolic environment-call index; up to two
    preemptions: thread t1 (t2) gets control when it has existed for s1 (s2) scheduling steps; default policy =
    lowest thread index first (= submission order).  Threads: 0 submission, 1 create, 2.. parts, last = final."""
    env = F.Env(fault_at, phase)
    svc = F.FakeS3(env, size=size)
    cfg = H.TransferConfig(multipart_threshold=thr, multipart_chunksize=chunk)
    c = corace._coord()
    threads = []
    ex = CoExecutor(threads)
    ran = {'done': 0, 'early': False}

    def on_done():
        ran['done'] += 1
        # every submitted task must have finished - except the (final) task that is announcing right now
        if any(not f.done() and f.thread != co.CUR[0] - 1 for f in ex.futures):
            ran['early'] = True
    c.add_done_callback(on_done)
    if kind == 'copy':
        ca = CallArgs(copy_source={'Bucket': 'srcbkt', 'Key': 'srckey'}, bucket='bkt', key='key', extra_args={},
                      subscribers=[], source_client=svc)
        cls = CP.CopySubmissionTask
    else:
        src = F.FakeFile(size, 0, env, 'src') if kind == 'upload-seekable' else F.NonSeekableSource(size, env)
        ca = CallArgs(fileobj=src, bucket='bkt', key='key', extra_args={}, subscribers=[])
        cls = UP.UploadSubmissionTask
    fut = FU.TransferFuture(FU.TransferMeta(ca, transfer_id=0), c)
    kw = {'client': svc, 'config': cfg, 'osutil': F.make_osutils(F.FakeFS(env), src_size=size, env=env),
          'request_executor': ex, 'transfer_future': fut}
    sub = cls(transfer_coordinator=c, main_kwargs=kw)

    def submission():
        yield from co.co_call(sub, '__call__')
    threads.append(submission())
    pre = [(s, t) for s, t in ((s1, t1), (s2, t2)) if t >= 0 and s >= 0]
    sch = co.Scheduler(preempt=pre, max_steps=600)
    v = sch.run(threads)
    if v:
        return 'proto: ' + v
    if not c.done() or not c._done_event.is_set():
        return 'proto: transfer never announced done (result() would block forever)'
    ok = c.status == 'success'
    if env.delivered is not None and ok:
        return 'proto: success reported although a fault was delivered'
    if ran['done'] != 1:
        return 'proto: done callbacks did not run exactly once'
    if ran['early']:
        return 'proto: done announced while a submitted task was still running'
    if svc.bad:
        return 'proto: ' + svc.bad
    r = svc.check_multipart_lifecycle(ok)
    if r:
        return 'proto: ' + r
    if ok:
        r = svc.check_object('key', size)
        if r:
            return 'proto: ' + r
        for uid in svc.uploads:
            r = svc.check_complete_args(uid)
            if r:
                return 'proto: ' + r
    return None


def protocol_fixed(kind, t1, t2, fault_at, phase, s1, s2):
    """the schedule and the fault position are what is explored here: 8 MiB in 2 parts of 5 MiB (sizes are symbolic in
    C01/C14)"""
    M = 1024 ** 2
    return protocol(kind, t1, t2, 8 * M, 5 * M, 5 * M, fault_at, phase, s1, s2)


_P = 'fault_at: int, phase: int, s1: int, s2: int'
_PRE = ['-1 <= fault_at <= 14', '0 <= phase <= 1', '-1 <= s1 <= 56', '-1 <= s2 <= 56']
_FR = ('fault_at == -1', '0 <= fault_at <= 2', '2 < fault_at <= 4', '4 < fault_at <= 6', '6 < fault_at <= 9')
OB_PROTO = dict(
    id='CO.upload', impl='protocol_fixed', params=_P, pre=_PRE,
    cases=[(k, t, -1) for k in ('upload-seekable', 'copy') for t in (1, 4)],
    cases_thorough=[(k, t, -1) for k in ('upload-seekable', 'upload-stream', 'copy') for t in (1, 2, 3, 4)] +
                   [('upload-seekable', 1, 4), ('upload-seekable', 2, 4)],
    splits=[[fr, sr, 'phase == 0', 's2 == -1'] for fr in _FR for sr in ('s1 <= 28', '28 < s1')],
    splits_thorough=[[fr] for fr in _FR + ('9 < fault_at',)],
    timeout=(170, 1500),
    bounds='2-part multipart upload of 8 MiB (concrete sizes; seekable stream; thorough: non-seekable stream) / copy of ONE transfer; every '
           'task on its own model thread; one fault at a symbolic environment call (0..9; thorough 0..14), before '
           '(thorough: or after) the effect; default order = submission order plus one preemption of the create task or '
           'the final task (thorough: any task, plus a second preemption of the final task) when it has existed for a '
           'symbolic number of steps - non-LIFO interleavings such as "task passed its done() check, then the '
           'submission fails"',
    encodes=['UploadSubmissionTask._submit/_submit_multipart_request', 'CopySubmissionTask._submit/'
             '_submit_multipart_request', 'SubmissionTask._main', '_wait_for_all_submitted_futures_to_complete',
             'Task.__call__ (all request tasks)', 'TransferCoordinator.submit / announce_done / failure cleanups',
             'CreateMultipartUploadTask', 'UploadPartTask', 'CopyPartTask', 'CompleteMultipartUploadTask'],
    assumptions=['co-versions generated from the source', 'S1', 'S2', 'request executor without bounds (C10/C12 cover them)'])
