"""C10 — configured concurrency and queue limits are never exceeded"""
from harness import common as H
from harness import nsrun as N
from vlib import fakes as F
from vlib import ns

# private-attribute groups (vlib/layout.py) the obligations of this module depend on
LAYOUT = ['manager', 'coord', 'task', 'bex', 'tasksem', 'sws']

EXPLANATION = (
    'C10: (1) wiring - with the six limits as UNBOUNDED symbolic integers a recording executor_cls observes what the '
    'real TransferManager constructor hands to each stage; (2) permit discipline - the real BoundedExecutor.submit '
    'with a stub executor from an arbitrary number of free permits: permit taken before the task is handed over, '
    'released exactly once when the task future completes (success or exception), tag overrides the stage semaphore, '
    'non-blocking submit at capacity raises NoResourcesAvailable; (3) stage attribution and occupancy in nested-schedule '
    'runs of real transfers with the limits symbolic in 1..3: every transfer request is issued by a request-stage task, '
    'size discovery by a submission-stage task, destination writes never overlap, in-flight requests <= '
    'max_request_concurrency, queued-or-running tasks per stage <= queue size (+ in-memory chunk limits).')

REQ_OPS = ('put_object', 'get_object', 'copy_object', 'delete_object', 'create_multipart_upload', 'upload_part',
           'upload_part_copy', 'complete_multipart_upload')


class RecExec(H.NonThreadedExecutor):
    made = []

    def __init__(self, max_workers=None):
        RecExec.made.append(max_workers)
        H.NonThreadedExecutor.__init__(self, max_workers)


def wiring(rc, sc, rq, sq, iq, up, dn):
    from s3transfer.futures import IN_MEMORY_DOWNLOAD_TAG, IN_MEMORY_UPLOAD_TAG
    from s3transfer.utils import SlidingWindowSemaphore, TaskSemaphore
    RecExec.made = []
    cfg = H.TransferConfig(max_request_concurrency=rc, max_submission_concurrency=sc, max_request_queue_size=rq,
                           max_submission_queue_size=sq, max_io_queue_size=iq, max_in_memory_upload_chunks=up,
                           max_in_memory_download_chunks=dn)
    m = H.TransferManager(F.FakeS3(F.Env()), cfg, executor_cls=RecExec)
    if RecExec.made != [rc, sc, 1]:
        return 'wiring: stage worker counts differ from max_request_concurrency / max_submission_concurrency / 1'
    if m._request_executor._semaphore._semaphore._value != rq:
        return 'wiring: request queue size'
    if m._submission_executor._semaphore._semaphore._value != sq:
        return 'wiring: submission queue size'
    if m._io_executor._semaphore._semaphore._value != iq:
        return 'wiring: io queue size'
    tags = m._request_executor._tag_semaphores
    u, d = tags[IN_MEMORY_UPLOAD_TAG], tags[IN_MEMORY_DOWNLOAD_TAG]
    if type(u) is not TaskSemaphore or u._semaphore._value != up:
        return 'wiring: in-memory upload chunk limit'
    if type(d) is not SlidingWindowSemaphore or d.current_count() != dn:
        return 'wiring: in-memory download chunk limit must be a sliding window of that size'
    if m._submission_executor._tag_semaphores or m._io_executor._tag_semaphores:
        return 'wiring: unexpected tag semaphores'
    return None


def permits(tagged, fail, block, free, tagfree):
    """C10.2 one BoundedExecutor.submit from an arbitrary number of free permits"""
    from s3transfer.futures import BoundedExecutor, TaskTag
    from s3transfer.utils import NoResourcesAvailable, TaskSemaphore
    events = []
    sems = {}

    class StubFuture:
        def __init__(self):
            self.cbs = []

        def add_done_callback(self, fn):
            self.cbs.append(fn)

        def finish(self):
            for cb in self.cbs:
                cb(self)

    class StubExec:
        def __init__(self, max_workers=None):
            self.futs = []

        def submit(self, fn, *a, **k):
            events.append(('handed-over', sems['stage']._semaphore._value, sems['tag']._semaphore._value))
            f = StubFuture()
            self.futs.append(f)
            return f

        def shutdown(self, wait=True):
            pass

    tag = TaskTag('t')
    sem_tag = TaskSemaphore(1)
    sem_tag._semaphore._value = tagfree
    be = BoundedExecutor(1, 1, {tag: sem_tag}, StubExec)
    sem_stage = be._semaphore
    sem_stage._semaphore._value = free
    sems['stage'], sems['tag'] = sem_stage, sem_tag

    class T:
        transfer_id = 7

        def __call__(self, ctx=None):
            return None
    mine, other = (sem_tag, sem_stage) if tagged else (sem_stage, sem_tag)
    before_mine = mine._semaphore._value
    before_other = other._semaphore._value
    if block and before_mine == 0:
        return '~'      # would wait for a permit: blocking behaviour is C04 / C10.4 (model semaphore pumps)
    try:
        fut = be.submit(T(), tag=tag if tagged else None, block=block)
    except NoResourcesAvailable:
        if block:
            return 'permits: blocking submit failed instead of waiting'
        if before_mine != 0:
            return 'permits: non-blocking submit refused although a permit was free'
        if events:
            return 'permits: task handed over although the submit was refused'
        return None
    if before_mine == 0:
        return 'permits: submit went through without a permit (overrun)'
    if len(events) != 1:
        return 'permits: task not handed to the executor exactly once'
    at_handover = events[0][2] if tagged else events[0][1]
    if at_handover != before_mine - 1:
        return 'permits: permit not held when the task is handed over'
    if other._semaphore._value != before_other:
        return 'permits: wrong semaphore used (tag must override the stage semaphore)'
    be._executor.futs[0].finish()
    if mine._semaphore._value != before_mine:
        return 'permits: permit not released exactly once when the task future completed'
    return None


def submit_blocks(tagged, state, held):
    """C10.6: TransferCoordinator.submit to a FULL stage blocks (here: lets the task occupying the stage run, then goes
    on) - it neither fails nor overruns - whatever state the transfer is in (a failed / cancelled transfer still has
    tasks to submit: the final / cleanup tasks)"""
    from s3transfer.futures import BoundedExecutor, TaskTag, TransferCoordinator
    from s3transfer.tasks import Task
    from s3transfer.utils import TaskSemaphore
    ns.install()
    S = ns.Sched()
    tag = TaskTag('t')
    be = BoundedExecutor(1, 1, {tag: TaskSemaphore(1)}, ns.ModelExecutor)
    ran = []

    class T(Task):
        def _main(self, label):
            ran.append(label)
    other = TransferCoordinator(transfer_id=1)
    mine = TransferCoordinator(transfer_id=2)
    # the stage (or the tag's semaphore) is full: `held` tasks of another transfer are queued and have not started
    for i in range(held):
        other.submit(be, T(other, main_kwargs={'label': 'other%d' % i}), tag=tag if tagged else None)
        if i == 0 and held > 1:
            return '~'     # (one permit only: a second occupant would itself block - not this obligation)
    if state == 1:
        mine.set_status_to_queued()
    elif state == 2:
        mine.set_status_to_running()
    elif state == 3:
        mine.set_status_to_running()
        mine.set_exception(F.Injected('x', 0))
    elif state == 4:
        mine.set_status_to_running()
        mine.cancel()
    try:
        fut = mine.submit(be, T(mine, main_kwargs={'label': 'mine'}), tag=tag if tagged else None)
    except ns.Stuck:
        return '~'
    except ns.Deadlock as d:
        return 'c10: submit to a full stage can never go on: ' + str(d)
    except Exception as e:  # noqa
        return 'c10: submit to a full stage failed instead of blocking (%s)' % type(e).__name__
    if held and ran[:1] != ['other0']:
        return 'c10: submit overran a full stage (returned before the occupying task ran)'
    while S.runnable():
        S.runnable()[0].start_next()
    if not fut.done():
        return 'c10: submitted task never ran'
    return None


def analyse(c):
    """stage attribution / overlap / occupancy from the event log of a nested-schedule run"""
    cfg = c.cfg
    inflight = 0
    max_inflight = 0
    writes_open = 0
    heads_open = 0
    for ev in c.env.log:
        what, kind = ev[1], ev[2]
        if what == 'begin':
            stage = ev[4]
            if kind.startswith('s3.'):
                op = kind[3:]
                if op in REQ_OPS:
                    if stage != 'request':
                        return 'c10: transfer request issued outside the request stage'
                    inflight += 1
                    if inflight > max_inflight:
                        max_inflight = inflight
                elif op == 'head_object':
                    if stage != 'submission':
                        return 'c10: size discovery issued outside the submission stage'
                    heads_open += 1
                    if heads_open > cfg.max_submission_concurrency:
                        return 'c10: more size-discovery requests in flight than max_submission_concurrency'
            elif kind in ('dst.write', 'fs.write'):
                if stage not in ('io', 'request'):
                    return 'c10: destination write outside the io stage'
                writes_open += 1
                if writes_open > 1:
                    return 'c10: two writes to one destination at the same time'
        elif what in ('end', 'fault'):
            if kind.startswith('s3.') and kind[3:] in REQ_OPS and what == 'end':
                inflight -= 1
            elif kind == 's3.head_object' and what == 'end':
                heads_open -= 1
            elif kind in ('dst.write', 'fs.write') and what == 'end':
                writes_open -= 1
    if max_inflight > cfg.max_request_concurrency:
        return 'c10: more transfer requests in flight than max_request_concurrency'
    ex = c.execs
    if ex['request'].max_running > cfg.max_request_concurrency or ex['submission'].max_running > \
            cfg.max_submission_concurrency or ex['io'].max_running > 1:
        return 'c10: stage runs more tasks than its worker limit'
    if ex['request'].max_occupancy > cfg.max_request_queue_size + cfg.max_in_memory_upload_chunks + \
            cfg.max_in_memory_download_chunks:
        return 'c10: request stage holds more tasks than queue size + in-memory chunk limits'
    if ex['submission'].max_occupancy > cfg.max_submission_queue_size:
        return 'c10: submission stage holds more tasks than its queue size'
    if ex['io'].max_occupancy > cfg.max_io_queue_size:
        return 'c10: io stage holds more tasks than max_io_queue_size'
    return None


def occupancy(transfer, size, thr, chunk, io, l1, l3, l4, l5, l6, c0, c1, c2):
    S = ns.Sched([c0, c1, c2])
    lim = dict(max_request_concurrency=l1, max_submission_concurrency=1, max_request_queue_size=l3,
               max_io_queue_size=l4, max_in_memory_upload_chunks=l5, max_in_memory_download_chunks=l6)
    c = N.build(transfer, size, thr, chunk, io, S, limits=lim, subs=0)
    v = N.go(c, S)
    if v:
        return v if v == '~' else 'c10: ' + v[5:]
    if N.finish(c)[0] != 'ok':
        return 'c10: transfer failed'
    r = N.effect_reason(c, transfer, size)
    if r:
        return 'c10: ' + r
    return analyse(c)


_O = 'size: int, thr: int, chunk: int, io: int, l1: int, l3: int, l4: int, l5: int, l6: int, c0: int, c1: int, c2: int'
_L = ['1 <= l1 <= 3 and 1 <= l3 <= 3 and 1 <= l4 <= 3 and 1 <= l5 <= 3 and 1 <= l6 <= 3',
      '0 <= c0 <= 2 and 0 <= c1 <= 2 and 0 <= c2 <= 2']
_UP3 = ['1 <= thr <= size', '5 * 1024 ** 2 <= chunk <= 5 * 1024 ** 3', '2 * chunk < size <= 3 * chunk', 'io == 1']
_DN3 = ['1 <= thr <= size', '1 <= chunk', '2 * chunk < size <= 3 * chunk', 'chunk <= io']
_REL = {'up-stream': ('l1', 'l3', 'l5'), 'up-path': ('l1', 'l3'), 'down-stream': ('l1', 'l4', 'l6'),
        'down-path': ('l1', 'l3', 'l4'), 'copy': ('l1', 'l3')}


def _occ():
    out = []
    for tr, shape, tier in [('up-stream', _UP3, 'quick'), ('down-stream', _DN3, 'quick'), ('down-path', _DN3, 'quick'),
                            ('up-path', _UP3, 'thorough'), ('copy', _UP3, 'thorough')]:
        fix = [l + ' == 2' for l in ('l1', 'l3', 'l4', 'l5', 'l6') if l not in _REL[tr]]
        out.append(dict(
            id='C10.4-' + tr, impl='occupancy', params=_O, cases=[(tr,)], tier=tier, pre=_L + shape + fix,
            splits=[['c0 == 0', 'c1 == 0', 'c2 == 0'], ['c0 >= 1', 'c2 == 0']],
            splits_thorough=[['c0 == 0'], ['c0 == 1'], ['c0 == 2']], timeout=(170, 1200),
            bounds='3-part transfer; the limits that govern this transfer type symbolic in 1..3 (others 2); 3 symbolic '
                   'nested-start choices (quick: 2)',
            encodes=['TransferManager executors', 'BoundedExecutor.submit', 'Task.__call__', 'submission tasks'],
            assumptions=['S1', 'S2', 'nested (LIFO) schedules only', 'ThreadPoolExecutor honours max_workers (modelled)']))
    return out


_W = 'rc: int, sc: int, rq: int, sq: int, iq: int, up: int, dn: int'
OBLIGATIONS = [
    dict(id='C10.1', impl='wiring', params=_W,
         pre=['1 <= rc and 1 <= sc and 1 <= rq and 1 <= sq and 1 <= iq and 1 <= up and 1 <= dn'], timeout=(60, 300),
         bounds='none: the six limits (+ submission queue size) are unbounded symbolic integers',
         encodes=['TransferManager.__init__', 'BoundedExecutor.__init__'], assumptions=['S1']),
    dict(id='C10.2', impl='permits', params='free: int, tagfree: int',
         cases=[(t, f, b) for t in (False, True) for f in (False,) for b in (False, True)],
         pre=['0 <= free <= 3', '0 <= tagfree <= 3'], timeout=(60, 300),
         bounds='free permits of the stage / tag semaphore symbolic in 0..3; blocking submit at zero permits is '
                'reported by the real threading.Semaphore blocking - excluded by pruning (see C04 for blocking)',
         encodes=['BoundedExecutor.submit', 'ExecutorFuture.add_done_callback', 'TaskSemaphore'], assumptions=[]),
    dict(id='C10.6', impl='submit_blocks', params='state: int, held: int', cases=[(False,), (True,)],
         pre=['0 <= state <= 4', '0 <= held <= 1'], timeout=(60, 300),
         bounds='one-permit stage (or tag semaphore) empty or full; the submitting transfer not-started / queued / '
                'running / failed / cancelled (symbolic index)',
         encodes=['TransferCoordinator.submit', 'BoundedExecutor.submit (blocking)', 'TaskSemaphore.acquire'],
         assumptions=['model semaphore: a blocked acquire lets queued tasks run (engine NS)']),
] + _occ()

from harness.corace import OB_SEMP, sliding_window_preempt  # noqa: E402
OBLIGATIONS += [dict(OB_SEMP, id='C10.5')]
