"""C20 — CRT manager glue: one permit per transfer, ordered completion, temp cleanup"""
import enum
import sys
import types

import botocore.compat  # noqa  (must be imported before the stub awscrt is visible: botocore probes awscrt.__version__)
import s3transfer.manager  # noqa

from vlib import fakes as F

# private-attribute groups (vlib/layout.py) the obligations of this module depend on
LAYOUT = []

EXPLANATION = (
    'C20: the real s3transfer.crt Python layer (CRTTransferManager, CRTTransferCoordinator, S3ClientArgsCreator, '
    'RenameTempFileHandler, AfterDoneHandler) runs against a stub awscrt package (awscrt is not installed) whose '
    'S3Client.make_request records the request and hands the harness its on_done / on_progress.  A sequence of 3 '
    'submissions with SYMBOLIC kinds (upload from path, download to a path, download to a stream, '
    'delete) and SYMBOLIC outcomes (success, error, cancelled by the user, make_request raising, request serialization raising) is '
    'completed in a SYMBOLIC order; the fixed Semaphore(128) is replaced by a counting semaphore of 2 that pumps the '
    'stub event loop when a submitter would block.  Oracle: exactly one release per submission, permits back to the '
    'initial value at quiescence, on_done subscribers run before the done-callbacks-complete event is set, path '
    'downloads publish by rename on success and remove the temp file on error / failing rename, '
    'shutdown() returns only after every coordinator\'s event is set - also after an earlier transfer failed.')


def _mod(name, **kw):
    m = types.ModuleType(name)
    m.__dict__.update(kw)
    sys.modules[name] = m
    return m


class _Any:
    def __init__(self, *a, **k):
        self.a = a
        self.k = k

    @classmethod
    def new_delegate(cls, *a, **k):
        return cls()


class S3RequestType(enum.Enum):
    DEFAULT = 0
    GET_OBJECT = 1
    PUT_OBJECT = 2


class S3RequestTlsMode(enum.Enum):
    ENABLED = 0
    DISABLED = 1


class S3ChecksumAlgorithm(enum.Enum):
    CRC32C = 1
    CRC32 = 2
    SHA1 = 3
    SHA256 = 4


class S3ChecksumLocation(enum.Enum):
    TRAILER = 1


class S3ResponseError(Exception):
    pass


if 'awscrt' not in sys.modules:
    _a = _mod('awscrt', __version__='0.0.0-stub')
    _a.http = _mod('awscrt.http', HttpHeaders=_Any, HttpRequest=_Any)
    _a.s3 = _mod('awscrt.s3', S3Client=_Any, S3RequestTlsMode=S3RequestTlsMode, S3RequestType=S3RequestType,
                 S3ChecksumAlgorithm=S3ChecksumAlgorithm, S3ChecksumLocation=S3ChecksumLocation, S3ChecksumConfig=_Any,
                 S3ResponseError=S3ResponseError, CrossProcessLock=_Any,
                 get_recommended_throughput_target_gbps=lambda: None)
    _a.auth = _mod('awscrt.auth', AwsCredentials=_Any, AwsCredentialsProvider=_Any, AwsSigningAlgorithm=_Any,
                   AwsSigningConfig=_Any)
    _a.io = _mod('awscrt.io', ClientBootstrap=_Any, ClientTlsContext=_Any, DefaultHostResolver=_Any,
                 EventLoopGroup=_Any, TlsContextOptions=_Any)
import s3transfer.crt as C  # noqa: E402


import threading as _threading  # noqa: E402

_CUR = {'loop': None}


class PumpEvent:
    """threading.Event whose wait() lets the stub CRT event loop complete outstanding requests (the real CRT does
    that on its own threads); waiting with nothing left to complete is a definite hang"""

    def __init__(self):
        self.flag = False

    def set(self):
        self.flag = True

    def is_set(self):
        return self.flag

    def wait(self, timeout=None):
        while not self.flag:
            if not _CUR['loop'].complete_one():
                raise RuntimeError('harness: done event can never be set (definite hang)')
        return True


C.threading = types.SimpleNamespace(Event=PumpEvent, Lock=_threading.Lock, Semaphore=_threading.Semaphore)


class CancelledByUser(Exception):
    pass


class ServiceError(Exception):
    pass


class Loop:
    """the stub CRT event loop: outstanding requests, completed in an order chosen by symbolic integers"""

    def __init__(self, order, outcomes):
        self.pending = []
        self.resolved = []     # future resolved, on_done not delivered yet
        self.order = list(order)
        self.outcomes = outcomes
        self.k = 0
        self.completed = []

    def choose(self, n):
        if n <= 1 or self.k >= len(self.order):
            return 0
        c = self.order[self.k]
        self.k += 1
        for i in range(n - 1):
            if c == i:
                return i
        return n - 1

    def complete_one(self):
        """one step of the stub CRT event loop.  Like awscrt, a request's future is resolved FIRST and its on_done
        is delivered in a LATER step: between the two the future is done but the callbacks have not run."""
        n = len(self.resolved) + len(self.pending)
        if n == 0:
            return False
        i = self.choose(n)
        if i < len(self.resolved):
            r = self.resolved.pop(i)
            r.kw['on_done'](error=r.err)
            self.completed.append(r)
            return True
        r = self.pending.pop(i - len(self.resolved))
        err = None
        if r.cancelled:
            err = CancelledByUser()
        elif r.outcome == 1:
            err = ServiceError('boom')
        r.err = err
        r.finished_future.finish(err)
        self.resolved.append(r)
        return True


class PumpFuture:
    def __init__(self, loop):
        self.loop = loop
        self._done = False
        self._exc = None

    def finish(self, exc):
        self._done = True
        self._exc = exc

    def done(self):
        return self._done

    def result(self, timeout=None):
        while not self._done:
            if not self.loop.complete_one():
                raise RuntimeError('harness: waiting for a request nobody will complete')
        if self._exc is not None:
            raise self._exc
        return None


class Req:
    def __init__(self, loop, kw, outcome):
        self.finished_future = PumpFuture(loop)
        self.kw = kw
        self.cancelled = False
        self.outcome = outcome

    def cancel(self):
        self.cancelled = True


class StubClient:
    def __init__(self, loop):
        self.loop = loop
        self.n = 0

    def make_request(self, **kw):
        self.n += 1
        i = kw['request'][2]        # the transfer this request belongs to
        out = self.loop.outcomes[i] if i < len(self.loop.outcomes) else 0
        if out == 3:
            raise ServiceError('request construction failed')
        r = Req(self.loop, kw, out)
        self.loop.pending.append(r)
        return r


class Ser(C.BaseCRTRequestSerializer):
    fail_ids = ()

    def serialize_http_request(self, t, future):
        if future.meta.transfer_id in self.fail_ids:
            raise ServiceError('request serialization failed')
        return ('req', t, future.meta.transfer_id)

    def translate_crt_exception(self, e):
        return None


class PumpSemaphore:
    def __init__(self, value, loop):
        self.value = value
        self.initial = value
        self.loop = loop
        self.acquires = 0
        self.releases = 0
        self.low = value

    def acquire(self, blocking=True, timeout=None):
        while self.value == 0:
            if not self.loop.complete_one():
                raise RuntimeError('harness: permit can never be released (definite hang)')
        self.value -= 1
        self.acquires += 1
        return True

    def release(self, n=1):
        self.value += n
        self.releases += 1


class Sub:
    def __init__(self, log, name):
        self.log = log
        self.name = name
        self.done = 0
        self.early = False

    def on_queued(self, future, **kw):
        self.log.append(('queued', self.name))

    def on_done(self, future, **kw):
        self.done += 1
        if future._coordinator._done_event.is_set():
            self.early = True
        self.log.append(('done', self.name))


KINDS = ['upload', 'download-path', 'download-stream', 'delete']


def sequence(n, k0, o0, k1, o1, k2, o2, k3, o3, x0, x1, x2, cancel_i, rename_fails):
    """n submissions; kind k_i in 0..3, outcome o_i in 0 (success) 1 (error) 2 (user cancels it) 3 (make_request
    raises) 4 (the request cannot be built: the serializer raises before make_request); x_j completion-order choices; cancel_i: which transfer the user cancels right after submitting it"""
    kinds = [k0, k1, k2, k3][:n]
    outs = [o0, o1, o2, o3][:n]
    loop = Loop([x0, x1, x2], outs)
    _CUR['loop'] = loop
    env = F.Env(fault_at=-1)
    fs = F.FakeFS(env, dest=None)
    osu = F.make_osutils(fs, src_size=10, env=env)
    if rename_fails:
        real_rename = osu.rename_file

        def bad_rename(cur, new):
            raise OSError('rename failed')
        osu.rename_file = bad_rename
    # (passing osutil= to the constructor raises AttributeError in this version: the attribute is only set when the
    #  argument is None - outside C20; the harness installs the fake afterwards)
    ser = Ser()
    ser.fail_ids = tuple(i for i in range(n) if outs[i] == 4)
    m = C.CRTTransferManager(StubClient(loop), ser)
    m._osutil = osu
    m._s3_args_creator._os_utils = osu
    sem = m._semaphore = PumpSemaphore(2, loop)
    log = []
    futs = []
    subs = []
    dests = []
    for i in range(n):
        s = Sub(log, i)
        subs.append(s)
        kind = KINDS[0]
        for j in range(4):
            if kinds[i] == j:
                kind = KINDS[j]
        dest = None
        try:
            if kind == 'upload':
                f = m.upload('/s/source%d' % i, 'bkt', 'k%d' % i, subscribers=[s])
            elif kind == 'download-path':
                dest = '/d/dest%d' % i
                f = m.download('bkt', 'k%d' % i, dest, subscribers=[s])
                # the stub CRT "writes" the temp file when the request is made
                if outs[i] not in (3, 4):
                    fs.files[dest + '.TMPSUFFX'] = []
            elif kind == 'download-stream':
                f = m.download('bkt', 'k%d' % i, F.StreamSink(env), subscribers=[s])
            else:
                f = m.delete('bkt', 'k%d' % i, subscribers=[s])
        except RuntimeError as e:
            return 'crt: ' + str(e)[len('harness: '):]
        futs.append(f)
        dests.append(dest)
        if outs[i] == 2 or cancel_i == i:
            f.cancel()
    try:
        m.shutdown()
    except RuntimeError as e:
        return 'crt: ' + str(e)[len('harness: '):]
    # ---- oracle
    for i, f in enumerate(futs):
        if not f._coordinator._done_event.is_set():
            return 'crt: shutdown returned before every transfer finished its done callbacks'
        if subs[i].done != 1:
            return 'crt: on_done subscriber not run exactly once'
        if subs[i].early:
            return 'crt: transfer reported as finished its callbacks before on_done subscribers ran'
    if loop.pending or loop.resolved:
        return 'crt: shutdown returned with requests outstanding / done callbacks not delivered'
    if sem.acquires != n or sem.releases != n:
        return 'crt: not exactly one permit release per submitted transfer'
    if sem.value != sem.initial:
        return 'crt: permits not back at the initial value at quiescence'
    for i, d in enumerate(dests):
        if d is None:
            continue
        tmp = d + '.TMPSUFFX'
        failed = outs[i] in (1, 3, 4) or futs[i]._coordinator._exception is not None or any(
            r.cancelled for r in loop.completed if r.kw.get('recv_filepath') == tmp)
        if outs[i] == 0 and not rename_fails and not (cancel_i == i):
            if d not in fs.files or tmp in fs.files:
                return 'crt: successful path download not published by rename'
        else:
            if tmp in fs.files:
                return 'crt: temporary file left after a failed / cancelled path download'
            # (whether a failing rename is recorded as the transfer's exception is not part of the statement: with
            #  the request's future already finished, RenameTempFileHandler's set_exception() is a no-op - observed,
            #  not judged)
    return None


_P = ('k0: int, o0: int, k1: int, o1: int, k2: int, o2: int, k3: int, o3: int, x0: int, x1: int, x2: int, '
      'cancel_i: int, rename_fails: bool')
_PRE = ['0 <= k%d <= 3 and 0 <= o%d <= 4' % (i, i) for i in range(4)] + [
    '0 <= x0 <= 2 and 0 <= x1 <= 2 and 0 <= x2 <= 2', '-1 <= cancel_i <= 3']
OBLIGATIONS = [
    dict(id='C20.1', impl='sequence', params=_P, cases=[(3,)], cases_thorough=[(3,)], pre=_PRE,
         splits=[['k0 == %d' % k, 'o0 == %d' % o, 'k3 == 0', 'o3 == 0', 'not rename_fails', 'cancel_i == -1', 'x1 == 0', 'x2 == 0']
                 for k in range(4) for o in range(5)] +
                [['k0 == 1', 'o0 == %d' % o, 'k3 == 0', 'o3 == 0', 'rename_fails', 'cancel_i == -1', 'x1 == 0', 'x2 == 0', 'k2 == 3']
                 for o in range(4)] +
                [['k%d == 1' % i, 'cancel_i == %d' % i, 'o0 == 0', 'k3 == 0', 'o3 == 0', 'not rename_fails', 'x1 == 0', 'x2 == 0', 'k%d == 3' % ((i + 1) % 3)]
                 for i in range(3)],
         splits_thorough=[['k0 == %d' % k, 'o0 == %d' % o, 'k3 == 0', 'o3 == 0', 'not rename_fails', 'cancel_i == -1', 'x2 == 0']
                          for k in range(4) for o in range(5)] +
                         [['k0 == 1', 'o0 == %d' % o, 'k3 == 0', 'o3 == 0', 'rename_fails', 'cancel_i == -1', 'x2 == 0']
                          for o in range(5)] +
                         [['k%d == 1' % i, 'cancel_i == %d' % i, 'k3 == 0', 'o3 == 0', 'not rename_fails', 'x1 == 0', 'x2 == 0']
                          for i in range(3)],
         timeout=(170, 1500),
         bounds='3 submissions, 4 kinds x 5 outcomes each, symbolic completion order (thorough: two free order choices), 2 permits (so a '
                'submitter blocks), optional user cancel of one transfer, optional failing rename',
         encodes=['CRTTransferManager._submit_transfer', '_release_semaphore', '_shutdown', '_cancel_transfers',
                  '_finish_transfers', '_wait_transfers_done', 'CRTTransferCoordinator', 'S3ClientArgsCreator.'
                  'get_crt_callback', '_get_make_request_args_get_object/put_object', 'RenameTempFileHandler',
                  'AfterDoneHandler'],
         assumptions=['stub awscrt (the real CRT client is outside)', 'S1']),
]
