"""One transfer through the real TransferManager with a single fault injected at a SYMBOLIC environment-call index
(and symbolic phase: before / after the effect), judged by the oracles of C03, C05, C06, C08, C09, C12.5 at once.
Each property's harness picks the reasons that carry its prefix."""
from harness import common as H
from harness.c12 import manager_sems_full
from vlib import fakes as F

TRANSFERS = ['up-path', 'up-seek', 'up-stream', 'copy', 'down-seekable', 'down-stream', 'down-path', 'down-special',
             'delete']


def run(transfer, size, thr, chunk, io, fault_at, phase, prev=False, executor_cls=H.NonThreadedExecutor,
        stream_faults=(), attempts=2, cfg_kw=None, provide_size=False, fault_cls=0):
    faultable = None
    if transfer.startswith('up-'):
        kind = {'up-path': 'path', 'up-seek': 'seekable', 'up-stream': 'nonseekable'}[transfer]
        c = H.run_upload(kind, size, thr, chunk, fault_at=fault_at, fault_phase=phase, faultable=faultable, subs=2,
                         executor_cls=executor_cls, cfg_kw=cfg_kw, known_size=provide_size, fault_cls=fault_cls)
    elif transfer == 'copy':
        c = H.run_copy(size, thr, chunk, fault_at=fault_at, fault_phase=phase, faultable=faultable, subs=2,
                       executor_cls=executor_cls, cfg_kw=cfg_kw, provide_size=provide_size, fault_cls=fault_cls)
    elif transfer == 'delete':
        c = H.Ctx()
        env = c.env = F.Env(fault_at, phase)
        env.fault_cls = fault_cls
        c.s3 = F.FakeS3(env)
        c.cfg = H.TransferConfig(**(cfg_kw or {}))
        c.fs = F.FakeFS(env)
        c.manager = H.manager(c.s3, c.cfg, None, executor_cls)
        c.subs = [F.RecSubscriber(env, 's%d' % i) for i in range(2)]
        c.future = c.manager.delete('bkt', 'key', subscribers=c.subs)
        c.outcome = H.outcome(c.future)
    else:
        kind = transfer[len('down-'):]
        c = H.run_download(kind, size, thr, chunk, io, fault_at=fault_at, fault_phase=phase, faultable=faultable,
                           prev=prev, subs=2, executor_cls=executor_cls, stream_faults=stream_faults,
                           attempts=attempts, cfg_kw=cfg_kw, provide_size=provide_size, fault_cls=fault_cls)
    c.transfer = transfer
    return c


def judge(c, transfer, size, thr, prev=False, cancelled=False, provide_size=False):
    """all reasons (list of 'cNN: ...' strings) this run violates"""
    out = []
    env, s3 = c.env, c.s3
    st, val = c.outcome
    ok = st == 'ok'
    if st in ('notdone', 'notannounced'):
        out.append('c04: future not done at quiescence (%s)' % st)
        if env.delivered is not None:
            out.append('c03: a fault was delivered but result() neither raises nor returns (done never announced)')
        out.append('c08: on_done never ran (done never announced)')
        return out
    # ---- C03
    if env.delivered is not None:
        if ok and env.delivered[1] == 'cb.on_progress' and getattr(env, 'fault_cls', 0) >= 2 \
                and transfer.startswith('down-'):
            # its own class: listed in known_findings.json (F12)
            out.append('c03: success reported although on_progress raised - an exception of a retryable type raised '
                       'by the callback during a body read is swallowed by the download retry loop')
        elif ok:
            out.append('c03: success reported although a fault was delivered')
        else:
            e = val
            genuine = isinstance(e, (F.Injected, F.InjectedOS, F.RetryableInjected, F.InjectedTimeout, F.InjectedConn)) or (
                isinstance(e, H.RetriesExceededError) and isinstance(e.last_exception, F.RetryableInjected)) or (
                cancelled and isinstance(e, H.CancelledError))
            if not genuine:
                out.append('c03: result() raises something that is not one of the failures that occurred')
    elif not ok and not cancelled:
        e = val
        if not (isinstance(e, H.RetriesExceededError) and s3.stream_faults > 0):
            out.append('c03: failure reported although nothing failed')
    if s3.bad:
        out.append('c03: ' + s3.bad)
    # ---- success implies the complete effect (C01/C02 oracles in short)
    if ok:
        if transfer.startswith('up-') or transfer == 'copy':
            blobs = s3.objects.get('key')
            if blobs is None or not F.tiles_in_order(F.segs_of(blobs), 0, size):
                out.append('c03: success with an incomplete / wrong destination object')
        elif transfer.startswith('down-'):
            r = H.dest_content_reason(c, transfer[len('down-'):], size)
            if r:
                out.append('c03: success but ' + r)
        elif transfer == 'delete' and s3.deleted != ['key']:
            out.append('c03: delete success without exactly one DeleteObject')
    # ---- C05
    r = s3.check_multipart_lifecycle(ok)
    if r:
        out.append('c05: ' + r)
    # ---- C06
    if transfer == 'down-path':
        fs = c.fs
        if fs.bad:
            out.append('c06: ' + fs.bad)
        names = set(fs.files)
        if names - {H.DEST}:
            out.append('c06: temporary file left behind')
        d = fs.files.get(H.DEST)
        if ok:
            if d is None or d == F.FakeFS.PREV or F.written_ok_seekable(d, size) is not None:
                out.append('c06: success but destination not the complete object')
        elif not cancelled:
            if prev and d != F.FakeFS.PREV:
                out.append('c06: previous destination content lost after a failure')
            if not prev and d is not None:
                out.append('c06: destination appeared although the download failed')
        else:
            if d is not None and d != F.FakeFS.PREV and F.written_ok_seekable(d, size) is not None:
                out.append('c06: partial destination after cancel')
            if prev and d is None:
                out.append('c06: previous destination content lost after a cancel')
    # ---- what was wrong at the instant the done event was set (C05 / C06 speak about that instant)
    if getattr(c, 'nsubmits', 1) == 1:
        for r in getattr(c, 'at_done', ()):
            if r not in out:
                out.append(r)
    # ---- C08
    out.extend(callbacks_reasons(c, provide_size, transfer))
    # ---- C09
    r = H.progress_reason(c, size, ok)
    if r and transfer != 'delete':
        out.append('c09: ' + r)
    # ---- C12.5
    r = manager_sems_full(c.manager, c.cfg)
    if r:
        out.append('c12: ' + r)
    return out


def callbacks_reasons(c, provide_size=False, transfer=''):
    out = []
    env = c.env
    first_s3 = None
    last_end = 0
    done_at = None
    for ev in env.log:
        if ev[1] == 'begin' and ev[2].startswith('s3.') and first_s3 is None:
            first_s3 = ev[0]
        if ev[1] == 'cb' and ev[2] == 'done' and done_at is None:
            done_at = ev[0]
    for ev in env.log:
        if done_at is not None and ev[0] > done_at:
            if ev[1] in ('begin', 'end') and not ev[2].startswith('cb.'):
                out.append('c08: request / write / cleanup after on_done began')
                break
            if ev[1] == 'cb' and ev[2] == 'progress':
                out.append('c08: on_progress delivered after on_done began')
                break
    started = any(ev[1] == 'cb' and ev[2] == 'queued' for ev in env.log) or first_s3 is not None
    for s in c.subs:
        if s.done != 1:
            out.append('c08: on_done not run exactly once')
            break
        if s.done_state != (True, True):
            out.append('c08: on_done ran before the outcome was final / result() could still block')
            break
        if s.queued > 1 or (s.queued == 0 and started and not getattr(c, 'cancelled_before_start', False)
                            and not (env.delivered is not None and env.delivered[1] == 'cb.on_queued')):
            # a fault inside an earlier subscriber's on_queued legitimately stops the later ones
            out.append('c08: on_queued not run exactly once')
            break
    if first_s3 is not None:
        for ev in env.log:
            if ev[1] == 'cb' and ev[2] == 'queued' and ev[0] > first_s3:
                out.append('c08: on_queued after the first S3 request')
                break
    if provide_size and any(op == 'head_object' for op, kw in c.s3.calls):
        out.append('c08: size provided in on_queued but HeadObject still issued')
    return out


def pick(reasons, prefix):
    for r in reasons:
        if r.startswith(prefix):
            return r
    return None


def faulted(prefix, transfer, prev, size, thr, chunk, io, fault_at, phase):
    c = run(transfer, size, thr, chunk, io, fault_at, phase, prev=prev)
    return pick(judge(c, transfer, size, thr, prev=prev), prefix)


def faulted_kind(prefix, transfer, prev, size, thr, chunk, io, fault_at, phase, fk):
    """the single-fault family with the TYPE of the injected exception symbolic as well (OSError, socket.timeout
    family, ConnectionError family): only a failing GetObject / body read may be retried - a destination write,
    file-system operation, source read or any other request that fails with an exception of a 'retryable' type is
    still a failure of the transfer"""
    c = run(transfer, size, thr, chunk, io, fault_at, phase, prev=prev, fault_cls=fk)
    return pick(judge(c, transfer, size, thr, prev=prev), prefix)


# shapes: (name, extra preconditions)
_UP1 = ['0 <= size < thr', '1 <= chunk <= 5 * 1024 ** 3']
_UP2 = ['1 <= thr <= size', '5 * 1024 ** 2 <= chunk <= 5 * 1024 ** 3', 'chunk < size <= 2 * chunk']
_DN1 = ['0 <= size < thr', '1 <= io', 'size <= 2 * io', '1 <= chunk']
_DN2 = ['1 <= thr <= size', '1 <= chunk', 'chunk < size <= 2 * chunk', 'chunk <= io']
PARAMS = 'size: int, thr: int, chunk: int, io: int, fault_at: int, phase: int'
BASE = ['0 <= phase <= 1', '-1 <= fault_at <= 40']


def fault_kind_obligations(prefix, pid, quick=('down-seekable', 'down-stream', 'down-path', 'up-path')):
    obs = []
    fam = [('up-path', [_UP1, _UP2]), ('up-stream', [_UP1]), ('copy', [_UP2]), ('down-seekable', [_DN1, _DN2]),
           ('down-stream', [_DN1, _DN2]), ('down-path', [_DN1, _DN2]), ('down-special', [_DN1])]
    for transfer, shapes in fam:
        obs.append(dict(
            id='%s.fk-%s' % (pid, transfer), impl='faulted_kind', params=PARAMS + ', fk: int',
            cases=[(prefix, transfer, False)], tier='quick' if transfer in quick else 'thorough',
            pre=BASE + ['1 <= fk <= 3', 'phase == 0'] + (['io == 1'] if not transfer.startswith('down') else []),
            splits=[sh + ['fk == %d' % k] for sh in shapes for k in (2, 3)],
            splits_thorough=[sh + ['fk == %d' % k] for sh in shapes for k in (1, 2, 3)], timeout=(170, 900),
            bounds='as the single-fault family, with the exception type of the fault symbolic: OSError, socket.timeout '
                   'family, ConnectionError family (the last two are members of S3_RETRYABLE_DOWNLOAD_ERRORS; they are '
                   'injected everywhere EXCEPT at GetObject / body reads, where a retry is legitimate)',
            encodes=['GetObjectTask._main (scope of the retry handler)', 'ImmediatelyWriteIOGetObjectTask._handle_io',
                     'IOWriteTask', 'Task.__call__', 'S3_RETRYABLE_DOWNLOAD_ERRORS'],
            assumptions=['S1', 'S2', 'identity-content data', 'serial schedule (NonThreadedExecutor)']))
    return obs


def fault_obligations(prefix, pid, which=None, timeout=(170, 900)):
    """the standard family of single-fault obligations, filtered for one property"""
    obs = []
    fam = [
        ('up-path', False, [_UP1, _UP2]), ('up-seek', False, [_UP2]), ('up-stream', False, [_UP1, _UP2]),
        ('copy', False, [_UP1, _UP2]),
        ('down-seekable', False, [_DN1, _DN2]), ('down-stream', False, [_DN2]),
        ('down-path', False, [_DN1, _DN2]), ('down-path', True, [_DN1, _DN2]), ('down-special', False, [_DN1]),
        ('delete', False, [['size == 0', 'thr == 1', 'chunk == 1']]),
    ]
    for transfer, prev, shapes in fam:
        if which and transfer not in which:
            continue
        obs.append(dict(
            id='%s.f-%s%s' % (pid, transfer, '-prev' if prev else ''), impl='faulted', params=PARAMS,
            cases=[(prefix, transfer, prev)],
            pre=BASE + (['io == 1'] if not transfer.startswith('down') else []),
            splits=[sh + ph for sh in shapes for ph in (['phase == 0'], ['phase == 1'])], timeout=timeout,
            bounds='one fault at a symbolic index over ALL environment calls of the run (S3 calls, source reads, '
                   'destination open/write/close/rename/remove, on_queued/on_progress callbacks), before or (S3 '
                   'calls) after the effect; shapes: single request, and 2 parts x 1 chunk; sizes symbolic within '
                   'the shape',
            encodes=['TransferManager.' + ('upload' if transfer.startswith('up') else 'download' if
                                           transfer.startswith('down') else transfer),
                     'Task.__call__', 'SubmissionTask._main', 'TransferCoordinator.set_exception / announce_done'],
            assumptions=['S1', 'S2', 'identity-content data', 'serial schedule (NonThreadedExecutor)']))
    return obs
