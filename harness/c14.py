"""C14 — part planning tiles the object and respects S3 limits (kernels at real scale)."""
from vlib import symreg

MiB = 1024 ** 2
GiB = 1024 ** 3
TiB = 1024 ** 4
S3_MAX_PARTS = 10000
S3_MIN_PART = 5 * MiB
S3_MAX_PART = 5 * GiB

# private-attribute groups (vlib/layout.py) the obligations of this module depend on
LAYOUT = ['manager', 'coord', 'task', 'bex', 'tasksem', 'sws'] + ['legacy', 'pp']

EXPLANATION = (
    'C14: the real planning kernels (ChunksizeAdjuster, calculate_num_parts, calculate_range_parameter and its two '
    'private duplicates, CopyObject _get_transfer_size) are executed symbolically by CrossHair at REAL scale '
    '(size <= 5 TiB, chunk sizes up to 8 GiB, symbolic part index); float ceil-division is carried exactly by shim S2 '
    '(lemmas L1/L2, discharged by z3/cvc5 in /verif/lemmas and counted as obligations here); the multipart decision '
    'and the ranges/part numbers actually issued are observed end-to-end on the real TransferManager with symbolic '
    'size/threshold/chunksize (<= 3 parts).')


def probe():
    import s3transfer.utils as U
    missing = []
    for n in ('ChunksizeAdjuster', 'calculate_num_parts', 'calculate_range_parameter', 'MAX_PARTS',
              'MAX_SINGLE_UPLOAD_SIZE', 'MIN_UPLOAD_CHUNKSIZE'):
        if not hasattr(U, n):
            missing.append('utils.' + n)
    return missing


def _clamp(c):
    if c > S3_MAX_PART:
        return S3_MAX_PART
    if c < S3_MIN_PART:
        return S3_MIN_PART
    return c


def adjust(known_size, c, size):
    """C14.1: ChunksizeAdjuster().adjust_chunksize(c, size) against S3's documented limits"""
    from s3transfer.utils import ChunksizeAdjuster
    adj = ChunksizeAdjuster()
    if not known_size:
        r = adj.adjust_chunksize(c)
        if r != _clamp(c):
            return 'adjust: unknown size not clamped'
        return None
    r = adj.adjust_chunksize(c, size)
    if not (S3_MIN_PART <= r <= S3_MAX_PART):
        return 'adjust: part size outside [5MiB,5GiB]'
    if size > S3_MAX_PARTS * r:
        return 'adjust: more than 10000 parts'
    if S3_MIN_PART <= c <= S3_MAX_PART and size <= S3_MAX_PARTS * c:
        if r != c:
            return 'adjust: changed although no limit requires it'
    # reference: doubled the minimal number of times, then clamped
    d = c
    k = 0
    while size > S3_MAX_PARTS * d and k < 64:
        d = d * 2
        k += 1
    if r != _clamp(d):
        return 'adjust: not the minimally doubled and clamped chunk size'
    return None


def constants(dummy):
    """C14.6: the limits built into the library equal S3's documented ones"""
    import s3transfer.utils as U
    if U.MAX_PARTS != S3_MAX_PARTS or U.MAX_SINGLE_UPLOAD_SIZE != S3_MAX_PART or U.MIN_UPLOAD_CHUNKSIZE != S3_MIN_PART:
        return 'constants: differ from S3 limits'
    a = U.ChunksizeAdjuster()
    if (a.max_parts, a.max_size, a.min_size) != (S3_MAX_PARTS, S3_MAX_PART, S3_MIN_PART):
        return 'constants: adjuster defaults differ from S3 limits'
    if dummy > 0 and U.calculate_num_parts(dummy, dummy) != 1:
        return 'constants: num_parts(x,x) != 1'
    return None


def _range_fn(which):
    if which == 'utils':
        from s3transfer.utils import calculate_range_parameter
        return lambda p, i, n, total: calculate_range_parameter(p, i, n, total_size=total)
    if which == 'download':
        from s3transfer.download import DownloadSubmissionTask
        return lambda p, i, n, total: DownloadSubmissionTask._calculate_range_param(None, p, i, n)
    if which == 'legacy':
        from s3transfer import MultipartDownloader
        return lambda p, i, n, total: MultipartDownloader._calculate_range_param(None, p, i, n)
    raise ValueError(which)


def range_tiling(which, with_total, size, p, i):
    """C14.2: range of a SYMBOLIC part index i tiles [0,size): starts at i*p, ends at (i+1)p-1 (< size) for
    non-last parts, open-ended / size-1 for the last one, and (n-1)p < size <= np."""
    from s3transfer.utils import calculate_num_parts
    n = calculate_num_parts(size, p)
    if not (n >= 1):
        return 'range: num_parts < 1 for size >= 1'
    if not ((n - 1) * p < size):
        return 'range: (n-1)*p >= size (too many parts)'
    if not (size <= n * p):
        return 'range: n*p < size (last byte not covered)'
    if not (0 <= i < n):
        return None
    fn = _range_fn(which)
    s = fn(p, i, n, size if with_total else None)
    start, end = symreg.parse_range(s)
    if start != i * p:
        return 'range: wrong start'
    if i == n - 1:
        if with_total:
            if end is None or end != size - 1:
                return 'range: last part does not end at size-1'
        elif end is not None:
            return 'range: last part not open-ended'
    else:
        if end is None:
            return 'range: non-last part open-ended'
        if end != (i + 1) * p - 1:
            return 'range: wrong end'
        if not (end < size - 1):
            return 'range: non-last part reaches the last byte'
    return None


def copy_part_sizes(size, p, i):
    """C14.3: CopySubmissionTask._get_transfer_size for a symbolic index: sizes are positive, equal the
    range length and sum to the total (closed form)"""
    from s3transfer.copies import CopySubmissionTask
    from s3transfer.utils import calculate_num_parts
    n = calculate_num_parts(size, p)
    if not (0 <= i < n):
        return None
    got = CopySubmissionTask._get_transfer_size(None, p, i, n, size)
    if i < n - 1:
        if got != p:
            return 'copysize: non-last part size != part_size'
    else:
        if got != size - (n - 1) * p:
            return 'copysize: last part size wrong'
        if not (1 <= got <= p):
            return 'copysize: last part size outside [1,p]'
    # sum over all parts = (n-1)*p + last = size
    return None


def num_parts_exact(size, p):
    """C14.2a: calculate_num_parts is the exact integer ceiling (through shim S2; justified by L1)"""
    from s3transfer.utils import calculate_num_parts
    n = calculate_num_parts(size, p)
    if n != -((-size) // p):
        return 'numparts: not the integer ceiling'
    return None


def part_limits(c):
    """every part of every multipart upload/copy the run made: non-final parts >= 5 MiB, all parts <= 5 GiB"""
    MiB = 1024 ** 2
    for uid, u in c.s3.uploads.items():
        n = len(u['parts'])
        for pn, ent in u['parts'].items():
            ln = 0
            for b in ent[0]:
                ln += len(b)
            if ln > 5 * 1024 * MiB:
                return 'decision: part above 5 GiB'
            if ln < 1:
                return 'decision: empty part (part numbers are not 1..ceil(size/part))'
            if pn != n and ln < 5 * MiB:
                return 'decision: non-final part below 5 MiB'
    return None


def decision(front, size, thr, chunk):
    """C14.4/5: multipart exactly when size >= threshold, ranges / part numbers / offsets tile the object - observed on
    the requests each front end issues (symbolic size / threshold / chunk size, <= 3 parts)"""
    from harness import c01, c02
    from harness import common as H
    if front in ('upload-path', 'upload-seekable'):
        kind = front[len('upload-'):]
        c = H.run_upload(kind, size, thr, chunk, body_reads=[-1] * 8)
        r = c01._upload_oracle(c, kind, size, thr, 0, size >= thr) or part_limits(c)
    elif front == 'upload-stream':
        c = H.run_upload('nonseekable', size, thr, chunk, nd=(0, 0), body_reads=[-1] * 4)
        r = c01._upload_oracle(c, 'nonseekable', size, thr, 0, size >= thr) or part_limits(c)
    elif front == 'upload-stream-sized':
        c = H.run_upload('nonseekable', size, thr, chunk, nd=(0, 0), body_reads=[-1] * 4, known_size=True)
        r = c01._upload_oracle(c, 'nonseekable', size, thr, 0, size >= thr) or part_limits(c)
    elif front == 'copy':
        c = H.run_copy(size, thr, chunk)
        r = c01._copy_oracle(c, size, thr) or part_limits(c)
    elif front == 'download':
        if size < thr:
            r = c02.download('seekable', 'single', 0, False, size, thr, chunk, chunk, 0, 0, 0, 0)
        else:
            r = c02.download('seekable', 'ranged', 0, False, size, thr, chunk, chunk, 0, 0, 0, 0)
    elif front == 'legacy-download':
        from harness import legacy as L
        c = L.download(size, thr, chunk)
        ranged = [kw for op, kw in c.s3.calls if op == 'get_object' and 'Range' in kw]
        plain = [kw for op, kw in c.s3.calls if op == 'get_object' and 'Range' not in kw]
        if c.outcome[0] != 'ok':
            return 'decision: legacy download failed'
        if size >= thr and plain:
            return 'decision: unranged request at/above the threshold'
        if size < thr and ranged:
            return 'decision: ranged request below the threshold'
        d = c.fs.files.get('/d/dest')
        from vlib import fakes as F
        rr = None if d is None else F.written_ok_seekable(d, size)
        return ('decision: legacy ' + rr) if rr else None
    else:
        from harness import c19
        r = c19.protocol(1, 0, size, chunk, -1, -1, -1, 0, -1, 0) if thr == chunk else '~'
    return r


_SZ = '0 <= size <= 5 * 1024 ** 4'
OBLIGATIONS = [
    dict(id='C14.1', groups=[], impl='adjust', params='c: int, size: int', cases=[(True,), (False,)],
         pre=[_SZ, '1 <= c <= 8 * 1024 ** 3'], timeout=(120, 600),
         bounds='size in [0, 5 TiB], configured chunk size in [1, 8 GiB], real constants; no other bound',
         encodes=['s3transfer.utils.ChunksizeAdjuster.adjust_chunksize', '_adjust_for_max_parts',
                  '_adjust_for_chunksize_limits'], assumptions=['S2 exact quotient (L1, L2)', 'S1 opaque formatting']),
    dict(id='C14.2', groups=[], impl='range_tiling', params='size: int, p: int, i: int',
         cases=[('utils', False), ('utils', True), ('download', False), ('legacy', False)],
         pre=['1 <= size <= 5 * 1024 ** 4', '1 <= p <= 8 * 1024 ** 3', '0 <= i'], timeout=(120, 600),
         bounds='size in [1, 5 TiB], part size in [1, 8 GiB], part index symbolic (unbounded)',
         encodes=['s3transfer.utils.calculate_num_parts', 's3transfer.utils.calculate_range_parameter',
                  's3transfer.download.DownloadSubmissionTask._calculate_range_param',
                  's3transfer.MultipartDownloader._calculate_range_param'],
         assumptions=['S2 exact quotient (L1, L2)', 'S1 placeholders decoded by parse_range']),
    dict(id='C14.2a', groups=[], impl='num_parts_exact', params='size: int, p: int',
         pre=['0 <= size <= 5 * 1024 ** 4', '1 <= p <= 8 * 1024 ** 3'], timeout=(60, 300),
         bounds='as C14.2', encodes=['s3transfer.utils.calculate_num_parts'], assumptions=['S2 (L1)']),
    dict(id='C14.3', groups=[], impl='copy_part_sizes', params='size: int, p: int, i: int',
         pre=['1 <= size <= 5 * 1024 ** 4', '1 <= p <= 8 * 1024 ** 3', '0 <= i'], timeout=(120, 600),
         bounds='as C14.2', encodes=['s3transfer.copies.CopySubmissionTask._get_transfer_size'],
         assumptions=['S2 (L1, L2)']),
    dict(id='C14.4', impl='decision', params='size: int, thr: int, chunk: int',
         cases=[('upload-path',), ('upload-seekable',), ('upload-stream',), ('copy',)],
         pre=['0 <= size', '1 <= thr', '5 * 1024 ** 2 <= chunk <= 5 * 1024 ** 3', 'size <= 3 * chunk'],
         splits=[['size < thr'], ['size == thr'], ['size > thr', 'size <= chunk'], ['size > thr', 'chunk < size <= 2 * chunk'],
                 ['size > thr', '2 * chunk < size']], timeout=(170, 900),
         bounds='<= 3 parts; size / threshold symbolic (incl. size == threshold exactly); chunk in [5 MiB, 5 GiB]',
         encodes=['UploadSubmissionTask._submit', 'requires_multipart_upload', 'CopySubmissionTask._submit',
                  'yield_upload_part_bodies', 'CopyPartTask ranges'], assumptions=['S1', 'S2', 'A3', 'A4']),
    dict(id='C14.4c', impl='decision', params='size: int, thr: int, chunk: int',
         cases=[('upload-path',), ('upload-stream',), ('upload-stream-sized',), ('copy',)],
         cases_thorough=[('upload-path',), ('upload-seekable',), ('upload-stream',), ('upload-stream-sized',), ('copy',)],
         pre=['0 <= size', '1 <= thr', '1 <= chunk <= 8 * 1024 ** 3'],
         splits=[['chunk < 5 * 1024 ** 2', 'size < thr', 'size <= 15 * 1024 ** 2'],
                 ['chunk < 5 * 1024 ** 2', 'size >= thr', 'size <= 5 * 1024 ** 2'],
                 ['chunk < 5 * 1024 ** 2', 'size >= thr', '5 * 1024 ** 2 < size <= 15 * 1024 ** 2'],
                 ['chunk > 5 * 1024 ** 3', 'size < thr', 'size <= 10 * 1024 ** 3'],
                 ['chunk > 5 * 1024 ** 3', 'size >= thr', 'size <= 10 * 1024 ** 3']], timeout=(170, 900),
         bounds='configured chunk size OUTSIDE the S3 limits (1 .. 5 MiB-1 and 5 GiB+1 .. 8 GiB, symbolic): every '
                'non-final part issued is still >= 5 MiB and every part <= 5 GiB; <= 3 parts; stream uploads with and '
                'without a size provided by a subscriber',
         encodes=['UploadSubmissionTask._submit_multipart_request (ChunksizeAdjuster call, size known / unknown)',
                  'CopySubmissionTask._submit_multipart_request', 'yield_upload_part_bodies', 'CopyPartTask ranges'],
         assumptions=['S1', 'S2', 'A3', 'A4']),
    dict(id='C14.4d', impl='decision', params='size: int, thr: int, chunk: int',
         cases=[('download',), ('legacy-download',)],
         pre=['0 <= size', '1 <= thr', '1 <= chunk <= 8192', 'size <= 3 * chunk'],
         splits=[['size < thr'], ['size == thr'], ['size > thr', 'size <= chunk'], ['size > thr', 'size > chunk']],
         timeout=(170, 900),
         bounds='<= 3 parts of <= 8 KiB; size / threshold symbolic incl. equality',
         encodes=['DownloadSubmissionTask._submit', 'S3Transfer._download_file'],
         assumptions=['S1', 'S2']),
    dict(id='C14.4p', impl='decision', params='size: int, thr: int, chunk: int',
         cases=[('processpool',)],
         pre=['0 <= size', 'thr == chunk', '1 <= chunk <= 8192', 'size <= 3 * chunk'],
         splits=[['size < thr'], ['size == thr'], ['size > thr']],
         timeout=(170, 900),
         bounds='<= 3 parts of <= 8 KiB; process pool (its threshold is the chunk size); size symbolic incl. equality',
         encodes=['GetObjectSubmitter._submit_get_object_jobs', 'GetObjectWorker._do_run'],
         assumptions=['S1', 'S2']),
    dict(id='C14.6', groups=[], impl='constants', params='dummy: int', pre=['0 <= dummy <= 2 ** 52'], timeout=(30, 60),
         bounds='none', encodes=['s3transfer.utils constants'], assumptions=[]),
]

_ALL = ['z3-4.8.12', 'z3-5.1', 'cvc5-1.0']
LEMMAS = [
    dict(id='L2', file='l2_unsat', expect='unsat', solvers=_ALL, timeout=(30, 120),
         statement='for integers a, p and b >= 1: -((-a) div b) > p  <=>  a > p*b (QF_NIA, unbounded)'),
    dict(id='L2b', file='l2b_unsat', expect='unsat', solvers=_ALL, timeout=(30, 120),
         statement='the <=, >=, < companions of L2 used by CeilQuot'),
    dict(id='L1-core-p53', file='l1core_unsat', expect='unsat', solvers=_ALL, timeout=(30, 120),
         statement='linear core of L1 at binary64: a = m + r, r >= 1, m >= 0, a < 2^53  =>  m < 2^53'),
    dict(id='L1-(5,11)', file='l1_5_11_unsat', expect='unsat', solvers=_ALL, timeout=(90, 300),
         statement='IEEE (5,11): int(ceil(fl(a)/fl(b))) == ceil_int(a/b) for 0 <= a < 2^11, 1 <= b < 2^11 (QF_BVFP)'),
    dict(id='L1-(5,11)-tight', file='l1_5_11_tight_sat', expect='sat', solvers=['z3-4.8.12', 'z3-5.1'], timeout=(60, 120),
         statement='sensitivity control: the same statement with operands below 2^12 (beyond the significand) is '
                   'falsifiable, so the encoding is not vacuous and the bound is tight'),
    dict(id='L1-(6,14)', file='l1_6_14_unsat', expect='unsat', solvers=['z3-5.1'], timeout=(600, 900), tier='thorough',
         statement='IEEE (6,14): same as L1-(5,11) with operands below 2^14'),
]
