"""Engine CO on the ranged-download protocol of ONE transfer: the real DownloadSubmissionTask, every GetObjectTask,
the IO write tasks on a single model IO thread, the real BoundedExecutor.submit with the real sliding-window tag
semaphore, DeferQueue and CountCallbackInvoker - all as co-versions generated from the source, interleaved at statement
level (non-LIFO schedules included) with symbolic preemptions, stream faults and sizes."""
import s3transfer.download as D
import s3transfer.futures as FU
import s3transfer.tasks as TK
import s3transfer.utils as U
from s3transfer.utils import CallArgs

from harness import common as H
from harness import corace
from harness import coupload  # noqa  (Task / SubmissionTask co-versions with dispatch through co_call)
from vlib import co
from vlib import fakes as F

DISPATCH = ['submit', 'acquire', 'queue_file_io_task', '_handle_io', 'increment', 'finalize']
_SH = ['_transfer_coordinator', 'request_executor', 'io_executor', 'client.', 'download_output_manager',
       'finalize_download_invoker', 'chunks', 'streaming_body', '_defer_queue', 'semaphore', '_executor']
FOUND = {}
FOUND['sub'] = co.make_co(D.DownloadSubmissionTask, ['_submit', '_submit_download_request',
                                                     '_submit_ranged_download_request'], D, _SH, DISPATCH)
FOUND['get'] = co.make_co(D.GetObjectTask, ['_main', '_handle_io'], D, _SH, DISPATCH)
FOUND['imm'] = co.make_co(D.ImmediatelyWriteIOGetObjectTask, ['_handle_io'], D, _SH, DISPATCH)
FOUND['om'] = co.make_co(D.DownloadOutputManager, ['queue_file_io_task'], D, _SH, DISPATCH)
FOUND['ns'] = co.make_co(D.DownloadNonSeekableOutputManager, ['queue_file_io_task'], D, _SH, DISPATCH)
FOUND['coord'] = co.make_co(FU.TransferCoordinator, ['submit'], FU, None, DISPATCH)
FOUND['bex'] = co.make_co(FU.BoundedExecutor, ['submit'], FU, None, DISPATCH)
# Task._execute_main calls self._main: GetObjectTask now has a co-version of _main, found through co_call


def probe():
    miss = []
    for k, want in (('sub', 3), ('get', 2), ('ns', 1), ('coord', 1), ('bex', 1)):
        if len(FOUND[k]) < want:
            miss.append('co-version missing: ' + k)
    return miss


class PoolFuture(co.CoFuture):
    """what a concurrent.futures executor returns (callbacks get the future)"""

    def __init__(self):
        co.CoFuture.__init__(self)
        self.cbs = []

    def add_done_callback(self, fn):
        if self._done:
            fn(self)
        else:
            self.cbs.append(fn)

    def complete(self, r):
        self.finish(r)
        cbs, self.cbs = self.cbs, []
        for cb in cbs:
            cb(self)


class ThreadPerTask:
    """request stage: every task on its own model thread (the tag semaphore, not the pool, bounds the window)"""

    def __init__(self, threads, log):
        self.threads = threads
        self.log = log
        self.futs = []

    def submit(self, fn, ctx=None):
        fut = PoolFuture()
        fut.thread = len(self.threads)
        self.futs.append(fut)
        self.threads.append(self._run(fn, fut))
        return fut

    def _run(self, task, fut):
        r = yield from co.co_call(task, '__call__')
        self.log.append(('task-end', fut.thread))
        fut.complete(r)

    def shutdown(self, wait=True):
        pass


class SingleWorker:
    """io stage: one model thread executing the submitted tasks in FIFO order"""

    def __init__(self, threads):
        self.q = co.MQueue()
        self.idx = len(threads)
        self.futs = []
        threads.append(self._worker())

    def submit(self, fn, ctx=None):
        fut = PoolFuture()
        fut.thread = self.idx
        self.futs.append(fut)
        self.q.put((fn, fut))
        return fut

    def _worker(self):
        while True:
            task, fut = yield from co.co_get(self.q)
            r = yield from co.co_call(task, '__call__')
            fut.complete(r)

    def shutdown(self, wait=True):
        pass


import threading as _real_threading  # noqa: E402
import types  # noqa: E402

class CountingSemaphore:
    """threading.Semaphore for code that is NOT co-versioned (TaskSemaphore): it can be used as long as it never has to
    wait; having to wait is reported (the stages' queue limits are 1000 here, so correct code never waits on it)"""

    def __init__(self, value=1):
        self._value = value

    def acquire(self, blocking=True, timeout=None):
        if self._value == 0:
            if not blocking:
                return False
            raise RuntimeError('a plain counting semaphore would block here (no permit left)')
        self._value -= 1
        return True

    def release(self, n=1):
        self._value += n


_CO_MT = types.SimpleNamespace(Lock=co.MLock, RLock=co.MLock, Condition=co.MCondition, Event=co.MEvent,
                               Semaphore=CountingSemaphore, current_thread=_real_threading.current_thread)


def _open_calls(env):
    n = 0
    for ev in env.log:
        if ev[1] == 'begin' and (ev[2].startswith('s3.') or ev[2] == 'dst.write'):
            n += 1
        elif ev[1] == 'end' and (ev[2].startswith('s3.') or ev[2] == 'dst.write'):
            n -= 1
        elif ev[1] == 'stream-fault':
            n -= 1
    return n


def protocol(kind, t1, t2, size, thr, chunk, io, window, f1, s1, s2):
    """kind: 'stream' | 'seekable'.  f1: byte position of a retryable stream fault in the first GetObject attempt
    issued (negative: none).  (s1,t1),(s2,t2): thread t gets control when it has existed for s scheduling steps.
    Threads: 0 io worker (daemon), 1 submission, 2.. GetObject tasks in submission order."""
    # objects created by the code under test (CountCallbackInvoker, the io-submit lock) must get model locks
    import s3transfer.manager as _M
    U.threading = _CO_MT
    D.threading = _CO_MT
    FU.threading = _CO_MT
    _M.threading = _CO_MT
    env = F.Env()
    svc = F.FakeS3(env, size=size, stream_faults=[(f1, True)] if f1 >= 0 else [])
    c = corace._coord()
    threads = []
    log = []
    io_pool = SingleWorker(threads)
    req_pool = ThreadPerTask(threads, log)
    # the stages and their semaphores are wired by the REAL TransferManager constructor; only the thread pools
    # underneath are the model ones (created in the order request, submission, io)
    pools = [req_pool, ThreadPerTask([], []), io_pool]
    cfg = H.TransferConfig(multipart_threshold=thr, multipart_chunksize=chunk, io_chunksize=io,
                           num_download_attempts=2, max_in_memory_download_chunks=window,
                           max_request_queue_size=1000, max_io_queue_size=1000)
    mgr = H.TransferManager(svc, cfg, executor_cls=lambda max_workers=None: pools.pop(0))
    req, iox = mgr._request_executor, mgr._io_executor
    sw = req._tag_semaphores[FU.IN_MEMORY_DOWNLOAD_TAG]
    sink = F.StreamSink(env) if kind == 'stream' else F.SeekableSink(env)
    prog = []

    class Sub:
        def on_progress(self, future, bytes_transferred, **kw):
            prog.append(bytes_transferred)
    ca = CallArgs(bucket='bkt', key='key', fileobj=sink, extra_args={}, subscribers=[Sub()])
    fut = FU.TransferFuture(FU.TransferMeta(ca, transfer_id=0), c)
    ran = {'done': 0, 'early': False}

    def on_done():
        ran['done'] += 1
        # every request and every destination write of the transfer must have returned (a task that is merely
        # finishing its bookkeeping after its request returned does not count)
        if _open_calls(env) > 0:
            ran['early'] = True
    c.add_done_callback(on_done)
    kw = {'client': svc, 'config': cfg, 'osutil': F.make_osutils(F.FakeFS(env), env=env), 'request_executor': req,
          'io_executor': iox, 'transfer_future': fut}
    sub = D.DownloadSubmissionTask(transfer_coordinator=c, main_kwargs=kw)

    def submission():
        yield from co.co_call(sub, '__call__')
    threads.append(submission())
    started = []          # thread index of the task that issued the k-th GetObject request of each part
    viol = []

    def watch():
        # C11 window: when part k is requested (first request of its range), the lowest part whose task has not
        # ended must be more than k - window
        n = len(svc.gets)
        while len(started) < n:
            start, ln, fa = svc.gets[len(started)]
            part = start // chunk if chunk > 0 else 0
            ended = set(t for e, t in log)
            lowest = part
            seen_parts = {}
            for j, (st2, _, _) in enumerate(svc.gets[:len(started) + 1]):
                seen_parts.setdefault(st2 // chunk if chunk > 0 else 0, j)
            for pnum in range(part):
                # task of part pnum = thread 2 + pnum (submission order)
                if (2 + pnum) not in ended:
                    lowest = pnum
                    break
            if part - lowest >= window:
                viol.append('dl: part requested window or more ahead of the lowest unfinished part')
            started.append(part)
        return viol[0] if viol else None
    pre = [(s, t) for s, t in ((s1, t1), (s2, t2)) if t >= 0 and s >= 0]
    sch = co.Scheduler(preempt=pre, max_steps=900)
    v = sch.run(threads, watch if kind == 'stream' else None, daemons={0})
    if v:
        return v if v.startswith('dl:') else 'dl: ' + v
    if not c.done() or not c._done_event.is_set():
        return 'dl: transfer never announced done'
    if c.status != 'success':
        return 'dl: download failed although faults < attempts'
    if ran['done'] != 1:
        return 'dl: done callbacks did not run exactly once'
    if ran['early']:
        return 'dl: done announced while a request or a destination write was still in flight'
    if svc.bad:
        return 'dl: ' + svc.bad
    r = F.written_ok_stream(sink.writes, size) if kind == 'stream' else F.written_ok_seekable(sink.writes, size)
    if r:
        return 'dl: ' + r
    if sum(prog) != size:
        return 'dl: progress does not sum to the object size'
    if not hasattr(sw, 'current_count') or sw.current_count() != window:
        return 'dl: download window not fully released at the end / not a sliding window'
    return None


def protocol_fixed(kind, t1, t2, window, f1, s1, s2):
    """the schedule is what is explored here: the object is 15 bytes in 3 parts of 5 (sizes are symbolic in C02/C14)"""
    return protocol(kind, t1, t2, 15, 5, 5, 5, window, f1, s1, s2)


_P = 'window: int, f1: int, s1: int, s2: int'
_PRE = ['1 <= window <= 3', '-1 <= f1 <= 5', '-1 <= s1 <= 60', '-1 <= s2 <= 60']
OB_DL = dict(
    id='CO.download', impl='protocol_fixed', params=_P, pre=_PRE,
    cases=[('stream', 3, -1), ('stream', 4, -1)],
    cases_thorough=[('stream', 3, -1), ('stream', 4, -1), ('stream', 3, 4), ('stream', 2, 4), ('seekable', 3, -1),
                    ('seekable', 4, 2)],
    splits=[['f1 == -1', '%d <= s1 <= %d' % (a, a + 9)] for a in range(-1, 59, 10)],
    splits_thorough=[['%d <= s1 <= %d' % (b, b + 9)] for b in range(-1, 59, 10)],
    timeout=(170, 1500),
    bounds='one ranged download of a 15-byte object in 3 parts x 1 chunk (concrete sizes: the schedule is the subject) '
           'to a non-seekable stream (thorough: also seekable); window 1..3 '
           'symbolic; every GetObjectTask on its own model thread, one IO thread; default order = submission order '
           'plus one (thorough: two) preemptions of chosen tasks when they have existed for a symbolic '
           'number of steps; thorough: a retryable stream fault at a symbolic byte position',
    encodes=['DownloadSubmissionTask._submit_ranged_download_request', 'TransferCoordinator.submit',
             'BoundedExecutor.submit', 'SlidingWindowSemaphore.acquire/release', 'GetObjectTask._main/_handle_io',
             'DownloadNonSeekableOutputManager.queue_file_io_task', 'DeferQueue', 'CountCallbackInvoker',
             'IOStreamingWriteTask / IOWriteTask', 'Task.__call__'],
    assumptions=['co-versions generated from the source', 'S1', 'S2', 'queue sizes unbounded (C10 covers them)'])
