"""C03 — a future never reports success unless every step succeeded"""
from harness import faults as FT
from harness import common as H
from vlib import fakes as F

# private-attribute groups (vlib/layout.py) the obligations of this module depend on
LAYOUT = ['manager', 'coord', 'task', 'bex', 'tasksem', 'sws'] + ['cci', 'defer']

EXPLANATION = (
    'C03: every transfer type (upload from path / seekable / non-seekable stream, copy, download to seekable / '
    'stream / path / special file, delete) in single-request and 2-part shape runs through the real TransferManager '
    'with ONE fault whose position is a symbolic index over all environment calls of the run and whose phase '
    '(before / after the effect) is symbolic; z3 decides every landing position.  Oracle: a delivered fault is never '
    'followed by a normal return of result(), what is raised is the injected failure (or RetriesExceededError wrapping '
    'an injected retryable one), and a reported success always has its complete effect.  Retry budget: symbolic '
    'positions of retryable stream faults, requests per range <= num_download_attempts, non-retryable never retried.')

faulted = FT.faulted
faulted_kind = FT.faulted_kind


def retry_budget(kind, nretry, fatal, size, io, f1, f2, f3):
    """retryable stream faults: at most `attempts` GetObject requests per range; exhausted budget -> result() raises
    RetriesExceededError(last injected); a non-retryable stream fault is never followed by another request"""
    attempts = 2
    script = [(f, True) for f in (f1, f2, f3)[:nretry]]
    if fatal:
        script.append((f1, 'os' if fatal == 'os' else False))
    c = H.run_download(kind, size, size + 1, 1, io, stream_faults=script, attempts=attempts, subs=1)
    st, val = c.outcome
    gets = len([1 for op, kw in c.s3.calls if op == 'get_object'])
    if gets > attempts:
        return 'c03: more GetObject requests than num_download_attempts'
    delivered = c.s3.stream_faults
    if fatal and delivered == nretry + 1:
        if st == 'ok':
            return 'c03: success after a non-retryable stream fault'
        if not isinstance(val, (F.Injected, F.InjectedOS)):
            return 'c03: wrong exception after a non-retryable stream fault'
        if gets != nretry + 1:
            return 'c03: request issued after a non-retryable fault'
        return None
    if delivered >= attempts:
        if st == 'ok':
            return 'c03: success although the retry budget was exhausted'
        if not (isinstance(val, H.RetriesExceededError) and isinstance(val.last_exception, F.RetryableInjected)):
            return 'c03: exhausted budget not reported as RetriesExceededError(last failure)'
        return None
    if st != 'ok':
        return 'c03: failure although faults < attempts'
    r = H.dest_content_reason(c, kind, size)
    if r:
        return 'c03: success but ' + r
    return None


OBLIGATIONS = FT.fault_obligations('c03', 'C03') + [
    dict(id='C03.retry', impl='retry_budget', params='size: int, io: int, f1: int, f2: int, f3: int',
         cases=[('seekable', 1, False), ('seekable', 2, False), ('stream', 2, False), ('path', 2, False),
                ('seekable', 0, True), ('seekable', 1, True), ('stream', 1, True), ('seekable', 0, 'os'), ('path', 1, 'os')],
         pre=['1 <= size', '1 <= io', 'size <= 2 * io', '-1 <= f1 <= size + 1 and -1 <= f2 <= size + 1 and -1 <= f3 <= size + 1'],
         timeout=(150, 600),
         bounds='single GET, num_download_attempts = 2, up to 2 retryable faults (+1 fatal) at symbolic byte positions '
                '(positions outside the range = fault not delivered)',
         encodes=['GetObjectTask._main', 'S3_RETRYABLE_DOWNLOAD_ERRORS', 'RetriesExceededError'],
         assumptions=['S1', 'identity-content data']),
]

OBLIGATIONS += FT.fault_kind_obligations('c03', 'C03')

from harness.corace import OB_DEPS, task_dependencies  # noqa: E402
OBLIGATIONS += [dict(OB_DEPS, id='C03.deps')]

from harness.nsrun import ns_fault_obligations, nsfaulted  # noqa: E402
OBLIGATIONS += ns_fault_obligations('c03', 'C03', ['up-stream', 'down-stream'])

from harness.coupload import OB_PROTO, protocol_fixed  # noqa: E402
OBLIGATIONS += [dict(OB_PROTO, id='C03.proto', tier='thorough', cases_thorough=OB_PROTO['cases'], splits_thorough=OB_PROTO['splits'])]
