"""C08 — subscriber callbacks: exactly once, in order, after the work"""
from harness import faults as FT

# private-attribute groups (vlib/layout.py) the obligations of this module depend on
LAYOUT = ['manager', 'coord', 'task', 'bex', 'tasksem', 'sws']

EXPLANATION = (
    'C08: recording subscribers (two per transfer, the first one raising in on_done for downloads) stamp every '
    'callback with the logical clock shared with the fake S3 / file system; every transfer type runs with one fault at '
    'a symbolic environment-call index (or none).  Oracle in every outcome: on_queued once and before the first S3 '
    'request, on_done exactly once per subscriber with done() true and the done event set, nothing (request, write, '
    'cleanup, on_progress) after on_done began, a size provided in on_queued suppresses HeadObject.  Cancellation '
    'outcomes and the cancel-vs-submission race are in the nested-schedule / CO obligations (C07, C17).')

faulted = FT.faulted


def provided_size(transfer, size, thr, chunk, io):
    c = FT.run(transfer, size, thr, chunk, io, -1, 0, provide_size=True)
    return FT.pick(FT.judge(c, transfer, size, thr, provide_size=True), 'c08')


OBLIGATIONS = FT.fault_obligations('c08', 'C08') + [
    dict(id='C08.size', impl='provided_size', params='size: int, thr: int, chunk: int, io: int',
         cases=[('down-seekable',), ('down-path',), ('copy',), ('up-stream',)],
         pre=['0 <= size', '1 <= thr', '5 * 1024 ** 2 <= chunk <= 5 * 1024 ** 3', 'size <= 2 * chunk', 'chunk <= io'],
         timeout=(150, 600), bounds='<= 2 parts; sizes symbolic',
         encodes=['TransferMeta.provide_transfer_size', 'DownloadSubmissionTask._submit', 'CopySubmissionTask._submit',
                  'UploadNonSeekableInputManager.requires_multipart_upload'], assumptions=['S1', 'S2']),
]

from harness.corace import OB_CVS, OB_DEPS, OB_RACE, cancel_vs_submission, coordinator_race, task_dependencies  # noqa: E402
OBLIGATIONS += [dict(OB_CVS, id='C08.2'), dict(OB_RACE, id='C08.2r', cases=[(0, 2, True), (1, 2, True), (2, 2, False), (0, 2, False)])]
OBLIGATIONS += [dict(OB_DEPS, id='C08.deps', cases=[(False, False, False), (True, False, False), (False, False, True)])]

from harness.nsrun import ns_fault_obligations, nsfaulted  # noqa: E402
OBLIGATIONS += ns_fault_obligations('c08', 'C08', ['up-seek', 'down-path'])


def reentrant_done(path, cbtype, transfer, act, size):
    """C08.re: a subscriber that calls back into its own future (done / meta / set_exception / cancel / result) from
    on_queued, on_progress or on_done - on every announce path - still gets on_done exactly once, and the transfer
    ends (the run is C04.2's; here the callback clause is what is reported)"""
    from harness import c04
    r = c04.reentrant(path, cbtype, transfer, act, size)
    if r and r != '~':
        return 'c08: on_done not delivered exactly once after a subscriber re-entered its future (%s)' % r
    return r


from harness.c04 import OBLIGATIONS as _C04OBS  # noqa: E402
OBLIGATIONS += [dict(o, id='C08.re', impl='reentrant_done') for o in _C04OBS if o['id'] == 'C04.2']
