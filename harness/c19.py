"""C19 — process-pool downloads finish only after all jobs, with cleanup"""
import s3transfer.processpool as PP
from s3transfer.exceptions import CancelledError

from harness import common as H
from vlib import co
from vlib import fakes as F

# private-attribute groups (vlib/layout.py) the obligations of this module depend on
LAYOUT = ['pp']

EXPLANATION = (
    'C19: in-process instances of the real GetObjectSubmitter, two GetObjectWorkers and the TransferMonitor (the '
    'cross-process protocol replayed in one process) over list-backed queues and an in-memory file system.  The run '
    'loops (_do_run, _submit_*, _run_get_object_job, _finalize_download, _do_file_rename) are turned into generator '
    'co-versions from the source on every run (engine CO) and interleaved at statement level by a preemption-bounded '
    'scheduler whose preemption positions and targets are symbolic; threads: submitter, worker A, worker B, the facade '
    '(requests, shutdown signals in the real order) and a cancelling user.  Symbolic: object size / chunk size (1-3 '
    'jobs), which GetObject fails, allocate / rename faults, where the user cancels.  Oracle at the moment is_done(id) '
    'becomes true: every job queued for id has been counted down by a worker, the destination is complete and in '
    'place with no exception, or an exception is recorded and the temp file is gone; done notified exactly once.  '
    'The ProcessPoolDownloader facade itself (real processes, manager proxies) is outside; its __exit__ / _shutdown '
    'ordering is checked with stub process objects.')

SUB = ['_do_run', '_submit_get_object_jobs', '_submit_single_get_object_job', '_submit_ranged_get_object_jobs',
       '_submit_get_object_job', '_notify_jobs_to_complete', '_allocate_temp_file', '_get_size']
WRK = ['_do_run', '_run_get_object_job', '_finalize_download', '_do_file_rename']
_FS = {'fs': None}


def _open(filename, mode='r'):
    fs = _FS['fs']
    idx = fs.op('open', filename)
    if filename not in fs.files:
        raise FileNotFoundError(filename)
    f = F.FSFile(fs, filename)
    fs.done('open', idx)
    return f


PP.open = _open
# switch points: only statements that touch state shared between the processes (monitor, queues, file system, S3);
# statements on process-local state commute with everything (partial-order reduction)
SHARED = ['_transfer_monitor', 'queue', '_osutil', '_client', 'open(', '_do_get_object', '_write_to_file']
FOUND_SUB = co.make_co(PP.GetObjectSubmitter, SUB, PP, SHARED)
FOUND_WRK = co.make_co(PP.GetObjectWorker, WRK, PP, SHARED)


def probe():
    miss = [n for n in ('_do_run', '_submit_get_object_jobs') if n not in FOUND_SUB]
    miss += [n for n in ('_do_run', '_run_get_object_job', '_finalize_download') if n not in FOUND_WRK]
    return miss


class CountQueue(co.MQueue):
    def __init__(self):
        co.MQueue.__init__(self)
        self.put_jobs = {}

    def put(self, x):
        tid = getattr(x, 'transfer_id', None)
        if tid is not None and hasattr(x, 'temp_filename'):
            self.put_jobs[tid] = self.put_jobs.get(tid, 0) + 1
        co.MQueue.put(self, x)


class Monitor(PP.TransferMonitor):
    """the real monitor, counting notifications"""

    def __init__(self):
        PP.TransferMonitor.__init__(self)
        self.done_calls = {}
        self.completed = {}

    def notify_done(self, transfer_id):
        self.done_calls[transfer_id] = self.done_calls.get(transfer_id, 0) + 1
        return PP.TransferMonitor.notify_done(self, transfer_id)

    def notify_job_complete(self, transfer_id):
        self.completed[transfer_id] = self.completed.get(transfer_id, 0) + 1
        return PP.TransferMonitor.notify_job_complete(self, transfer_id)


def protocol(ndl, cancel, size, chunk, get_fault, fs_fault, s1, t1, s2, t2):
    """ndl downloads of an object of `size` bytes; get_fault: index of the GetObject call that fails (non-retryable);
    fs_fault: index of the file-system operation that fails; (s1,t1),(s2,t2): preemptions"""
    env = F.Env(fault_at=fs_fault, faultable=('fs',))
    fs = F.FakeFS(env, dest=None, total=size)
    _FS['fs'] = fs
    osu = F.make_osutils(fs, env=env)
    s3 = F.FakeS3(F.Env(fault_at=get_fault, faultable=('s3.get_object',)), size=size)
    mon = Monitor()
    cfg = PP.ProcessTransferConfig(multipart_threshold=chunk, multipart_chunksize=chunk, max_request_processes=2)
    reqq, wq = co.MQueue(), CountQueue()

    class CF:
        def create_client(self):
            return s3
    sub = PP.GetObjectSubmitter(cfg, CF(), mon, osu, reqq, wq)
    sub._client = s3
    workers = []
    for _ in range(2):
        w = PP.GetObjectWorker(wq, CF(), mon, osu)
        w._client = s3
        workers.append(w)
    tids = []
    dests = []
    state = {'sub_done': False}

    def facade():
        for i in range(ndl):
            tid = mon.notify_new_transfer()
            tids.append(tid)
            dests.append('/d/dest%d' % i)
            reqq.put(PP.DownloadFileRequest(transfer_id=tid, bucket='b', key='k', filename='/d/dest%d' % i,
                                            extra_args={}, expected_size=None))
            yield ('pt', 'submitted')
        reqq.put(PP.SHUTDOWN_SIGNAL)
        while not state['sub_done']:
            yield ('blocked', 'join-submitter')
        for _ in workers:
            wq.put(PP.SHUTDOWN_SIGNAL)

    def submitter():
        yield from sub._co__do_run()
        state['sub_done'] = True

    def user():
        if cancel == 1:
            while not tids:
                yield ('blocked', 'nothing submitted yet')
            yield ('pt', 'cancel')
            mon.notify_exception(tids[0], CancelledError())
        elif cancel == 2:
            yield ('pt', 'ctrl-c')
            mon.notify_cancel_all_in_progress()
        return
        yield

    seen_done = {}
    verdict = []

    def on_step():
        for i, tid in enumerate(tids):
            if tid in seen_done or not mon.is_done(tid):
                continue
            seen_done[tid] = True
            put = wq.put_jobs.get(tid, 0)
            if mon.completed.get(tid, 0) != put:
                return 'pp: download reported done before every queued job was accounted for by a worker'
            exc = mon.get_exception(tid)
            tmp = dests[i] + '.TMPSUFFX'
            d = fs.files.get(dests[i])
            if exc is None:
                if d is None or F.written_ok_seekable(d, size) is not None:
                    return 'pp: done without exception but the destination is not the complete object'
                if tmp in fs.files:
                    return 'pp: done without exception but the temporary file remains'
            else:
                if tmp in fs.files and not (env.delivered is not None and env.delivered[1] == 'fs.remove'):
                    return 'pp: failed / cancelled download left its temporary file'
                # a cancel racing the final rename may leave the COMPLETE object in place (C06 allows exactly that)
                if d is not None and (F.written_ok_seekable(d, size) is not None or not isinstance(exc, CancelledError)):
                    return 'pp: failed / cancelled download published a partial / unexpected destination file'
        return None

    pre = []
    if s1 >= 0:
        pre.append((s1, t1))
    if s2 >= 0:
        pre.append((s2, t2))
    sch = co.Scheduler(preempt=pre, max_steps=600)
    state['steps'] = sch
    gens = [facade(), submitter(), workers[0]._co__do_run(), workers[1]._co__do_run(), user()]
    v = sch.run(gens, on_step)
    if v:
        return 'pp: ' + v if not v.startswith('pp:') else v
    for i, tid in enumerate(tids):
        if not mon.is_done(tid):
            return 'pp: shutdown completed but a download is not done'
        if mon.done_calls.get(tid, 0) != 1:
            return 'pp: done not notified exactly once'
    if wq.items or reqq.items:
        return 'pp: work left in a queue after shutdown'
    return None


def facade_exit(kbd, started):
    """C19.3 facade logic that needs no processes: __exit__ with KeyboardInterrupt cancels in-progress transfers
    before shutting down; _shutdown joins the submitter before signalling / joining the workers, then the manager"""
    log = []

    class P:
        def __init__(self, name):
            self.name = name

        def join(self):
            log.append('join ' + self.name)

    class Q:
        def __init__(self, name):
            self.name = name

        def put(self, x):
            log.append('put ' + self.name)

    class Mgr:
        def shutdown(self):
            log.append('manager shutdown')

    class Mon:
        def notify_cancel_all_in_progress(self):
            log.append('cancel all')
    d = PP.ProcessPoolDownloader.__new__(PP.ProcessPoolDownloader)
    import threading
    d._start_lock = threading.Lock()
    d._started = started
    d._download_request_queue, d._worker_queue = Q('requests'), Q('jobs')
    d._submitter = P('submitter')
    d._workers = [P('w0'), P('w1')]
    d._manager = Mgr()
    d._transfer_monitor = Mon() if started else None
    e = KeyboardInterrupt() if kbd else None
    d.__exit__(type(e) if e else None, e, None)
    if not started:
        if log:
            return 'pp: facade acted although it was never started'
        return None
    want = (['cancel all'] if kbd else []) + ['put requests', 'join submitter', 'put jobs', 'put jobs', 'join w0',
                                              'join w1', 'manager shutdown']
    if log != want:
        return 'pp: facade shutdown order / Ctrl-C cancellation wrong'
    if d._started:
        return 'pp: facade still marked started after shutdown'
    return None


_P = 'size: int, chunk: int, get_fault: int, fs_fault: int, s1: int, t1: int, s2: int, t2: int'
_PRE = ['1 <= chunk <= 2 * 1024 ** 2', '0 <= size <= 3 * chunk', '-1 <= get_fault <= 5', '-1 <= fs_fault <= 12',
        '0 <= t1 <= 4 and 0 <= t2 <= 4', '-1 <= s1 <= 60 and -1 <= s2 <= 60']
_S1 = ['%d <= s1 <= %d' % (a, a + 3) for a in range(0, 32, 4)] + ['32 <= s1']
_S1W = ['%d <= s1 <= %d' % (a, a + 7) for a in range(0, 32, 8)] + ['32 <= s1']
OBLIGATIONS = [
    dict(id='C19.1', impl='protocol', params=_P, cases=[(1, 0), (1, 1)], cases_thorough=[(1, 0), (1, 1), (1, 2)],
         pre=_PRE,
         splits=[['get_fault == -1', 'fs_fault == -1', 's2 == -1', 't2 == 0', r] for r in _S1] +
                [['get_fault >= 0', 'fs_fault == -1', 's2 == -1', 't2 == 0', r] for r in
                 ['s1 == -1 and t1 == 0'] + _S1[5:]] +
                [[g, 'fs_fault == -1', 's2 == -1', 't2 == 0', r] for r in _S1[:5]
                 for g in ('0 <= get_fault <= 1', '2 <= get_fault <= 3', '4 <= get_fault')] +
                [['get_fault == -1', 'fs_fault >= 0', 's1 == -1', 't1 == 0', 's2 == -1', 't2 == 0']],
         splits_thorough=[['get_fault == -1', 'fs_fault == -1', r, r2] for r in _S1W for r2 in
                          ('s2 == -1 and t2 == 0', '0 <= s2 <= 15', '15 < s2')] +
                         [['get_fault >= 0', 'fs_fault == -1', 's2 == -1', 't2 == 0', r] for r in _S1W] +
                         [['get_fault == -1', 'fs_fault >= 0', 's2 == -1', 't2 == 0', r] for r in _S1W],
         timeout=(170, 1800),
         bounds='1 download (thorough: 2 in C19.1w) of 1-3 jobs, 2 workers; statement-level interleaving with 1 (thorough 2) '
                'preemption at a symbolic step to a symbolic thread; one failing GetObject or file-system operation '
                'at a symbolic index; user cancel as its own thread',
         encodes=['GetObjectSubmitter._do_run/_submit_*', 'GetObjectWorker._do_run/_run_get_object_job/'
                  '_finalize_download/_do_file_rename/_do_get_object/_write_to_file', 'TransferMonitor', 'TransferState'],
         assumptions=['co-versions generated from the source', 'monitor calls atomic (manager proxy)', 'S1', 'S2']),
    dict(id='C19.1w', impl='protocol', params=_P, cases=[(2, 0)], tier='thorough', pre=_PRE,
         splits=[['get_fault == -1', 'fs_fault == -1', 's2 == -1', 't2 == 0', r] for r in _S1W] +
                [['get_fault >= 0', 'fs_fault == -1', 's2 == -1', 't2 == 0', r] for r in _S1W],
         timeout=(170, 1800),
         bounds='2 downloads sharing the submitter and 2 workers; one preemption at a symbolic step to a symbolic '
                'thread; optionally one failing GetObject at a symbolic index',
         encodes=['GetObjectSubmitter._do_run', 'GetObjectWorker._do_run', 'TransferMonitor', 'TransferState'],
         assumptions=['co-versions generated from the source', 'monitor calls atomic (manager proxy)', 'S1', 'S2']),
    dict(id='C19.3', impl='facade_exit', params='kbd: bool, started: bool', pre=[], timeout=(60, 300),
         bounds='all 4 combinations', encodes=['ProcessPoolDownloader.__exit__', '_shutdown', '_shutdown_submitter',
                                               '_shutdown_get_object_workers'], assumptions=['stub process objects']),
]
