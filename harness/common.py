"""shared scaffolding for the end-to-end obligations: a real TransferManager over the fakes"""
import s3transfer.upload as _up
from s3transfer.exceptions import CancelledError, FatalError, RetriesExceededError  # noqa
from s3transfer.futures import NonThreadedExecutor
from s3transfer.manager import TransferConfig, TransferManager

from vlib import fakes as F

# part buffers of stream uploads stay symbolic: BytesIO(Blob) -> BlobIO (real BytesIO for real bytes)
_up.BytesIO = F.bytesio_factory

MiB = 1024 ** 2
DEST = '/d/dest'


def _no_random_suffix():
    pass


class Ctx:
    """everything an oracle may want to look at after a run"""

    def __init__(self):
        self.at_done = []        # what was wrong at the instant the transfer's done event was set (see DoneProbe)
        self.nsubmits = 1
        CURRENT[0] = self


CURRENT = [None]


class DoneProbe:
    """stands in for TransferCoordinator._done_event: the instant it is set is the instant result() unblocks, i.e. the
    instant "the future is done" for a waiting caller.  Properties that speak about that instant (C05: the upload is
    finished or aborted BY THEN; C06: no temporary file remains) are judged there, not only at quiescence."""

    def __init__(self, ev, coord):
        self._ev = ev
        self._coord = coord

    def set(self):
        if not self._ev.is_set():
            c = CURRENT[0]
            if c is not None and getattr(self._coord, 'transfer_id', None) == 0 and hasattr(c, 's3'):
                _at_done(c, self._coord)
        self._ev.set()

    def __getattr__(self, name):
        return getattr(self._ev, name)


def _at_done(c, coord):
    ok = coord._status == 'success'
    for uid, u in c.s3.uploads.items():
        if u.get('returned') and u['inflight'] > 0:
            c.at_done.append('c05: the future became done while a request for its multipart upload was in flight')
            break
    r = c.s3.check_multipart_lifecycle(ok)
    if r:
        c.at_done.append('c05: when the future became done: ' + r)
    fs = getattr(c, 'fs', None)
    if fs is not None and getattr(c, 'transfer', '') == 'down-path':
        if set(fs.files) - {DEST}:
            c.at_done.append('c06: temporary file still present when the future became done')


def _install_probe():
    import s3transfer.futures as FU
    if getattr(FU.TransferCoordinator, '_verif_probe', False):
        return
    orig = FU.TransferCoordinator.__init__

    def __init__(self, *a, **kw):
        orig(self, *a, **kw)
        ev = getattr(self, '_done_event', None)
        if ev is not None:
            self._done_event = DoneProbe(ev, self)
    FU.TransferCoordinator.__init__ = __init__
    FU.TransferCoordinator._verif_probe = True


_install_probe()


def manager(s3, cfg, osutil=None, executor_cls=NonThreadedExecutor):
    return TransferManager(s3, cfg, osutil=osutil, executor_cls=executor_cls)


def outcome(fut):
    """('ok', result) / ('exc', exception) / ('notdone', None) — never blocks (serial executors)"""
    if not fut.done():
        return 'notdone', None
    if not fut._coordinator._done_event.is_set():
        return 'notannounced', None
    try:
        return 'ok', fut.result()
    except Exception as e:  # noqa
        return 'exc', e


def run_download(kind, size, thr, chunk, io, nd=(), stream_faults=(), attempts=3, short_reads=False,
                 fault_at=-1, fault_phase=0, faultable=None, prev=False, subs=2, provide_size=False,
                 executor_cls=NonThreadedExecutor, extra_args=None, cfg_kw=None, before_wait=None, fault_at2=-1,
                 fault_cls=0):
    """one download through the real TransferManager; kind in seekable|stream|path|special"""
    c = Ctx()
    c.transfer = 'down-' + kind
    env = c.env = F.Env(fault_at, fault_phase, F.Nondet(nd), faultable, fault_at2=fault_at2)
    env.fault_cls = fault_cls
    s3 = c.s3 = F.FakeS3(env, size=size, short_reads=short_reads, stream_faults=stream_faults)
    kw = dict(multipart_threshold=thr, multipart_chunksize=chunk, io_chunksize=io, num_download_attempts=attempts)
    kw.update(cfg_kw or {})
    cfg = c.cfg = TransferConfig(**kw)
    special = (DEST,) if kind == 'special' else ()
    fs = c.fs = F.FakeFS(env, dest=DEST if kind in ('path', 'special') else None, prev=prev, total=size,
                         special=special)
    osu = F.make_osutils(fs, env=env)
    m = c.manager = manager(s3, cfg, osu, executor_cls)
    if kind == 'seekable':
        dest = c.sink = F.SeekableSink(env)
    elif kind == 'stream':
        dest = c.sink = F.StreamSink(env)
    else:
        dest = DEST
        c.sink = None
    c.subs = [F.RecSubscriber(env, 's%d' % i, size=size if (provide_size and i == 0) else None,
                              raise_in_done=(i == 0 and subs > 1)) for i in range(subs)]
    c.future = m.download('bkt', 'key', dest, extra_args=extra_args, subscribers=c.subs)
    if before_wait:
        before_wait(c)
    c.outcome = outcome(c.future)
    return c


def dest_content_reason(c, kind, size):
    if kind == 'seekable':
        return F.written_ok_seekable(c.sink.writes, size)
    if kind == 'stream':
        return F.written_ok_stream(c.sink.writes, size)
    if kind == 'special':
        # special files are written through a non-seekable output manager: strictly sequential writes
        return F.written_ok_stream(c.fs.stream_writes, size)
    d = c.fs.files.get(DEST)
    if d is None or d == F.FakeFS.PREV:
        return 'destination file missing'
    return F.written_ok_seekable(d, size)


def run_upload(kind, size, thr, chunk, off=0, nd=(), body_reads=(), resend=0, preread=False,
               fault_at=-1, fault_phase=0, faultable=None, subs=1, short=False, known_size=False,
               executor_cls=NonThreadedExecutor, extra_args=None, rcc='when_required', cfg_kw=None, fault_cls=0):
    """one upload; kind in path|seekable|nonseekable.  `off` = start offset of a seekable stream."""
    c = Ctx()
    env = c.env = F.Env(fault_at, fault_phase, F.Nondet(nd), faultable)
    env.fault_cls = fault_cls
    s3 = c.s3 = F.FakeS3(env, rcc=rcc, body_reads=body_reads, resend=resend, preread=preread)
    kw = dict(multipart_threshold=thr, multipart_chunksize=chunk)
    kw.update(cfg_kw or {})
    cfg = c.cfg = TransferConfig(**kw)
    fs = c.fs = F.FakeFS(env)
    osu = F.make_osutils(fs, src_size=size, env=env)
    m = c.manager = manager(s3, cfg, osu, executor_cls)
    if kind == 'path':
        src = '/s/source'
        c.src = None
    elif kind == 'seekable':
        src = c.src = F.FakeFile(off + size, off, env, 'src')
    elif kind == 'duck':
        src = c.src = F.DuckFile(off + size, off, env)
    else:
        src = c.src = F.NonSeekableSource(size, env, short=short)
    c.subs = [F.RecSubscriber(env, 's%d' % i, size=size if (known_size and i == 0) else None)
              for i in range(subs)]
    c.future = m.upload(src, 'bkt', 'key', extra_args=extra_args, subscribers=c.subs)
    c.outcome = outcome(c.future)
    return c


def run_copy(size, thr, chunk, fault_at=-1, fault_phase=0, faultable=None, subs=1, provide_size=False,
             executor_cls=NonThreadedExecutor, extra_args=None, rcc='when_required', cfg_kw=None, fault_cls=0):
    c = Ctx()
    env = c.env = F.Env(fault_at, fault_phase, None, faultable)
    env.fault_cls = fault_cls
    s3 = c.s3 = F.FakeS3(env, size=size, rcc=rcc)
    kw = dict(multipart_threshold=thr, multipart_chunksize=chunk)
    kw.update(cfg_kw or {})
    cfg = c.cfg = TransferConfig(**kw)
    m = c.manager = manager(s3, cfg, None, executor_cls)
    c.subs = [F.RecSubscriber(env, 's%d' % i, size=size if (provide_size and i == 0) else None)
              for i in range(subs)]
    c.future = m.copy({'Bucket': 'srcbkt', 'Key': 'srckey'}, 'bkt', 'key', extra_args=extra_args,
                      subscribers=c.subs)
    c.outcome = outcome(c.future)
    return c


def effective_chunk(chunk, size=None):
    """reference for the adjusted part size (C14.1 proves the real adjuster equals this)"""
    d = chunk
    if size is not None:
        k = 0
        while size > 10000 * d and k < 64:
            d = d * 2
            k += 1
    if d > 5 * 1024 ** 3:
        return 5 * 1024 ** 3
    if d < 5 * MiB:
        return 5 * MiB
    return d


def progress_reason(c, size, ok):
    """C09: for a successful transfer, per subscriber: running sum within [0,size], total exactly size"""
    if not ok:
        return None
    for s in c.subs:
        run = 0
        for v in s.progress:
            run = run + v
            if run < 0 or run > size:
                return 'progress: running sum left [0,size]'
        if ok and run != size:
            return 'progress: sum differs from the transfer size'
    return None
