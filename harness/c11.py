"""C11 — in-memory buffering stays within the documented bounds"""
from harness import common as H
from harness import nsrun as N
from vlib import fakes as F
from vlib import ns

# private-attribute groups (vlib/layout.py) the obligations of this module depend on
LAYOUT = ['manager', 'coord', 'task', 'bex', 'tasksem', 'sws'] + ['defer', 'cci']

EXPLANATION = (
    'C11: nested-schedule runs (engine NS) with the laziest consumer (request tasks start only when the submitter '
    'blocks) and with symbolic nested starts, limits symbolic in 1..3: (1) stream uploads - part buffers read from '
    'the user stream whose request has not finished never exceed max_in_memory_upload_chunks + '
    'max_submission_concurrency, each no larger than max(effective chunk size, threshold); (2) downloads to a '
    'non-seekable destination - the highest part requested is less than max_in_memory_download_chunks ahead of the '
    'lowest part not yet finished, bytes received and not yet written never exceed that many parts; (3) pending '
    'destination writes never exceed max_io_queue_size, each at most io_chunksize; (4) the tags are attached exactly '
    'to the tasks that hold memory.')


def upload_buffers(size, thr, chunk, up, rc, c0, c1):
    S = ns.Sched([c0, c1])
    lim = dict(max_request_concurrency=rc, max_in_memory_upload_chunks=up, max_submission_concurrency=1,
               max_request_queue_size=10)
    c = N.build('up-stream', size, thr, chunk, 1, S, limits=lim, subs=0)
    v = N.go(c, S)
    if v:
        return v if v == '~' else 'c11: ' + v[5:]
    if N.finish(c)[0] != 'ok':
        return 'c11: transfer failed'
    r = N.effect_reason(c, 'up-stream', size)
    if r:
        return 'c11: ' + r
    eff = H.effective_chunk(chunk)
    cap = eff if eff > thr else thr
    live = 0
    reads = list(c.src.reads)
    ri = 0
    bi = 0
    for ev in c.env.log:
        if ev[1] == 'end' and ev[2] == 'src.read':
            pos, k = reads[ri]
            ri += 1
            live = live + k
            # at most (up + 1) buffers of at most `cap` bytes each are held
            if live > (up + 1) * cap:
                return 'c11: more stream data buffered than (max_in_memory_upload_chunks + max_submission_concurrency) buffers'
        elif ev[1] == 'end' and ev[2] in ('s3.upload_part', 's3.put_object'):
            live = live - c.s3.body_sizes[bi]
            bi += 1
    for n in c.s3.body_sizes:
        if n > cap:
            return 'c11: a single buffer larger than max(chunksize, threshold)'
    return None


def small_stream_uploads(n, size, thr, up, c0, c1):
    """C11.1m: `n` uploads of small non-seekable streams (each below the threshold: ONE PutObject whose body is the
    whole stream, read into memory by the submitter) on one manager: at most max_in_memory_upload_chunks +
    max_submission_concurrency such buffers exist at any time, however slowly the requests are consumed"""
    S = ns.Sched([c0, c1])
    lim = dict(max_request_concurrency=1, max_in_memory_upload_chunks=up, max_submission_concurrency=1,
               max_request_queue_size=10, max_submission_queue_size=10)
    c = N.build('up-stream', size, thr, 5 * 1024 ** 2, 1, S, limits=lim, subs=0)
    futs = [c.future]
    srcs = [c.src]
    for i in range(1, n):
        futs.append(N.submit(c, 'up-stream', size, [], key='key%d' % i))
        srcs.append(c.src)
    st = {'live': 0, 'bad': None}

    def watch(src):
        orig = src.read
        seen = [False]

        def read(amt=None):
            d = orig(amt)
            if not seen[0] and len(d) > 0:
                seen[0] = True
                st['live'] += 1
                if st['live'] > up + 1:
                    st['bad'] = ('c11: more stream buffers alive than max_in_memory_upload_chunks + '
                                 'max_submission_concurrency (single-request uploads)')
            return d
        src.read = read
    for src in srcs:
        watch(src)
    orig_put = c.s3.put_object

    def put_object(**kw):
        r = orig_put(**kw)
        st['live'] -= 1
        return r
    c.s3.put_object = put_object
    v = N.go(c, S, prefer='submission')
    if v:
        return v if v == '~' else 'c11: ' + v[5:]
    for f in futs:
        if H.outcome(f)[0] != 'ok':
            return 'c11: transfer failed'
    if st['bad']:
        return st['bad']
    if len(c.s3.body_sizes) != n:
        return 'c11: not one PutObject per small stream'
    for b in c.s3.body_sizes:
        if b > thr:
            return 'c11: a single buffer larger than max(chunksize, threshold)'
    return None


def download_window(size, thr, chunk, io, dn, rc, iq, c0, c1, c2):
    S = ns.Sched([c0, c1, c2])
    lim = dict(max_request_concurrency=rc, max_in_memory_download_chunks=dn, max_io_queue_size=iq,
               max_request_queue_size=10)
    c = N.build('down-stream', size, thr, chunk, io, S, limits=lim, subs=0)
    v = N.go(c, S)
    if v:
        return v if v == '~' else 'c11: ' + v[5:]
    if N.finish(c)[0] != 'ok':
        return 'c11: transfer failed'
    r = N.effect_reason(c, 'down-stream', size)
    if r:
        return 'c11: ' + r
    # part k = k-th GetObject request (FIFO starts, no faults); a part is finished when its request task ended
    part_tid = []
    finished = set()
    wi = 0
    for ev in c.env.log:
        if ev[1] == 'begin' and ev[2] == 's3.get_object':
            k = len(part_tid)
            part_tid.append(ev[5]['tid'])
            lowest = k
            for j in range(k):
                if part_tid[j] not in finished:
                    lowest = j
                    break
            if k - lowest >= dn:
                return 'c11: part requested max_in_memory_download_chunks or more ahead of the lowest unfinished part'
        elif ev[1] == 'task-end' and ev[2] == 'request':
            finished.add(ev[3])
        elif ev[1] == 'end' and ev[2] == 'dst.write':
            if len(c.sink.writes[wi]) > io:
                return 'c11: destination write larger than io_chunksize'
            wi += 1
    if c.execs['io'].max_occupancy > iq:
        return 'c11: pending destination writes exceed max_io_queue_size'
    return None


def tags(kind, op):
    """C11.4: the in-memory tag is attached exactly to the tasks that hold memory"""
    from s3transfer.download import (DownloadFilenameOutputManager, DownloadNonSeekableOutputManager,
                                     DownloadSeekableOutputManager, DownloadSpecialFilenameOutputManager)
    from s3transfer.futures import IN_MEMORY_DOWNLOAD_TAG, IN_MEMORY_UPLOAD_TAG
    from s3transfer.upload import (UploadFilenameInputManager, UploadNonSeekableInputManager,
                                   UploadSeekableInputManager, UploadSubmissionTask)
    ops = ['put_object', 'upload_part']
    ups = [UploadFilenameInputManager, UploadSeekableInputManager, UploadNonSeekableInputManager]
    downs = [DownloadFilenameOutputManager, DownloadSeekableOutputManager, DownloadNonSeekableOutputManager,
             DownloadSpecialFilenameOutputManager]
    if kind < 3:
        cls = ups[0]
        for i in range(3):
            if kind == i:
                cls = ups[i]
        mgr = cls(None, None)
        o = ops[0]
        for i in range(2):
            if op == i:
                o = ops[i]
        t = UploadSubmissionTask._get_upload_task_tag(None, mgr, o)
        holds = (kind == 2) or (kind == 1 and o == 'upload_part')
        if (t is IN_MEMORY_UPLOAD_TAG) != holds or (t is not None and t is not IN_MEMORY_UPLOAD_TAG):
            return 'c11: in-memory upload tag not exactly on the bodies held in memory'
        return None
    cls = downs[0]
    for i in range(4):
        if kind - 3 == i:
            cls = downs[i]
    t = cls(None, None, None).get_download_task_tag()
    holds = kind - 3 >= 2
    if (t is IN_MEMORY_DOWNLOAD_TAG) != holds or (t is not None and t is not IN_MEMORY_DOWNLOAD_TAG):
        return 'c11: in-memory download tag not exactly on non-seekable destinations'
    return None


OBLIGATIONS = [
    dict(id='C11.1', impl='upload_buffers', params='size: int, thr: int, chunk: int, up: int, rc: int, c0: int, c1: int',
         pre=['1 <= thr <= size', '5 * 1024 ** 2 <= chunk <= 5 * 1024 ** 3', '2 * chunk < size <= 4 * chunk',
              'thr <= 2 * chunk', '1 <= up <= 3', '1 <= rc <= 2', '0 <= c0 <= 2 and 0 <= c1 <= 2'],
         splits=[['c0 == 0', 'c1 == 0', 'size <= 3 * chunk'], ['c0 == 0', 'c1 == 0', 'size > 3 * chunk'],
                 ['c0 >= 1', 'c1 == 0', 'size <= 3 * chunk']],
         splits_thorough=[['c0 == 0'], ['c0 >= 1']], timeout=(170, 1200),
         bounds='stream upload of 3-4 parts (unknown size); in-memory chunk limit 1..3, request concurrency 1..2, '
                'laziest-consumer schedule plus symbolic nested starts',
         encodes=['UploadNonSeekableInputManager.yield_upload_part_bodies', 'BoundedExecutor.submit (tag semaphore)',
                  'TaskSemaphore'], assumptions=['S1', 'S2', 'A4', 'nested (LIFO) schedules only']),
    dict(id='C11.1m', impl='small_stream_uploads', params='size: int, thr: int, up: int, c0: int, c1: int',
         cases=[(4,)], cases_thorough=[(4,), (5,)],
         pre=['1 <= size < thr', '1 <= up <= 2', '0 <= c0 <= 2 and 0 <= c1 <= 2'],
         splits=[['c0 == 0', 'c1 == 0'], ['c0 >= 1', 'c1 == 0']], splits_thorough=[['c0 == 0'], ['c0 >= 1']],
         timeout=(170, 900),
         bounds='4 (thorough 5) concurrent uploads of small non-seekable streams (size symbolic, below the threshold) '
                'sharing one manager; in-memory chunk limit 1..2, one submitter, one request thread; laziest-consumer '
                'schedule (submission tasks run whenever they can, requests only when a submitter blocks) plus symbolic nested starts',
         encodes=['UploadSubmissionTask._submit_upload_request (tag of the PutObject task)',
                  'UploadNonSeekableInputManager.get_put_object_body', 'BoundedExecutor.submit (tag semaphore)'],
         assumptions=['S1', 'S2', 'nested (LIFO) schedules only']),
    dict(id='C11.2', impl='download_window',
         params='size: int, thr: int, chunk: int, io: int, dn: int, rc: int, iq: int, c0: int, c1: int, c2: int',
         pre=['1 <= thr <= size', '1 <= chunk', '2 * chunk < size <= 4 * chunk', 'chunk <= io', '1 <= dn <= 3',
              '1 <= rc <= 2', '1 <= iq <= 2', '0 <= c0 <= 2 and 0 <= c1 <= 2 and 0 <= c2 <= 2'],
         splits=[['c0 == 0', 'c1 == 0', 'c2 == 0', 'size <= 3 * chunk'], ['c0 == 0', 'c1 == 0', 'c2 == 0', 'size > 3 * chunk'],
                 ['c0 >= 1', 'c1 == 0', 'c2 == 0', 'size <= 3 * chunk']],
         splits_thorough=[['c0 == 0'], ['c0 == 1'], ['c0 == 2']], timeout=(170, 1200),
         bounds='non-seekable ranged download of 3-4 parts x 1 chunk; window 1..3, request concurrency 1..2, io queue 1..2',
         encodes=['SlidingWindowSemaphore', 'DownloadSubmissionTask._submit_ranged_download_request',
                  'DownloadNonSeekableOutputManager', 'DeferQueue'], assumptions=['S1', 'S2', 'nested (LIFO) schedules only']),
    dict(id='C11.4', impl='tags', params='kind: int, op: int', pre=['0 <= kind <= 6', '0 <= op <= 1'],
         timeout=(60, 300), bounds='all 3 input managers x 2 operations, all 4 output managers (symbolic indices)',
         encodes=['UploadSubmissionTask._get_upload_task_tag', 'stores_body_in_memory', 'get_download_task_tag'],
         assumptions=[]),
]

from harness.corace import OB_SEMP, sliding_window_preempt  # noqa: E402
OBLIGATIONS += [dict(OB_SEMP, id='C11.5')]

from harness.c10 import OBLIGATIONS as _C10OBS, wiring  # noqa: E402
OBLIGATIONS += [dict(o, id='C11.0') for o in _C10OBS if o['id'] == 'C10.1']

from harness.codownload import OB_DL, protocol_fixed as co_download_protocol  # noqa: E402
OBLIGATIONS += [dict(OB_DL, id='C11.6', impl='co_download_protocol', cases_thorough=OB_DL['cases'], splits_thorough=OB_DL['splits'])]
