"""C13 — bandwidth limit is respected without starving or over-throttling"""
from fractions import Fraction

from s3transfer.bandwidth import (BandwidthLimitedStream, BandwidthRateTracker, ConsumptionScheduler, LeakyBucket,
                                  RequestExceededException, RequestToken)

from vlib import co as _co
from vlib import fakes as F
from vlib import symreal as R
import s3transfer.bandwidth as _B

_CO_BUCKET = _co.make_co(_B.LeakyBucket, ['consume'], _B)

# private-attribute groups (vlib/layout.py) the obligations of this module depend on
LAYOUT = ['bw', 'manager', 'coord']

EXPLANATION = (
    'C13: (1) integer accounting of the real BandwidthLimitedStream against a stub bucket (symbolic read amounts, '
    'threshold, enabled/disabled phases, refusals): every byte requested while enabled is charged exactly once, '
    'disabled reads never, close charges the remainder, a refused consume is followed by exactly one '
    'sleep(retry_time) and a retry with the same token, a failed/cancelled transfer raises its error instead of '
    'waiting.  (2) the real ConsumptionScheduler / LeakyBucket over z3 REALS (shim S3): retry_time returned = sum of '
    'the allocated times of the requests scheduled and not yet released, own included; releasing restores the total; '
    'an ABANDONED waiter (transfer failed while it slept) must not be charged to later requests.  (3) one-step '
    'admission rule from an arbitrary tracker state over the reals: admitted <=> alpha*amt/dt + (1-alpha)*rate <= max; '
    'admitted => amt <= 1.25*max*dt; rate <= max and amt/dt <= max => admitted and rate\' <= max (so by induction '
    'traffic below the limit is never delayed).  IEEE rounding is outside (A2); the windowed 1.25 bound for unbounded '
    'histories is not proved, only its one-step core.')


def probe():
    t = BandwidthRateTracker()
    s = ConsumptionScheduler()
    miss = [n for n in ('_last_time', '_current_rate', '_alpha') if not hasattr(t, n)]
    miss += [n for n in ('_total_wait', '_tokens_to_scheduled_consumption') if not hasattr(s, n)]
    return miss


class FakeTime:
    def __init__(self, now=0):
        self.now = now
        self.slept = []

    def time(self):
        return self.now

    def sleep(self, v):
        self.slept.append(v)


class StubBucket:
    """refuses the first `refuse` consume calls of every request, then grants"""

    def __init__(self, refuse, retry_time):
        self.refuse = refuse
        self.retry_time = retry_time
        self.log = []
        self.left = {}
        self.cancelled = []

    def consume(self, amt, token):
        k = self.left.get(id(token), None)
        if k is None:
            k = self.refuse
        self.log.append((amt, token, k > 0))
        if k > 0:
            self.left[id(token)] = k - 1
            raise RequestExceededException(amt, self.retry_time)
        self.left.pop(id(token), None)
        return amt

    def cancel_scheduled_consumption(self, token):
        self.cancelled.append(token)


class Coord:
    exception = None


def stream_accounting(refuse, failed, thr, a1, e1, a2, e2, a3, e3, closing_enabled, retry):
    """C13.1"""
    ft = FakeTime()
    bucket = StubBucket(refuse, retry)
    coord = Coord()
    src = F.FakeFile(10 ** 9, 0)
    s = BandwidthLimitedStream(src, bucket, coord, ft, bytes_threshold=thr)
    want = 0
    pending = 0
    for amt, en in ((a1, e1), (a2, e2), (a3, e3)):
        if en:
            s.enable_bandwidth_limiting()
        else:
            s.disable_bandwidth_limiting()
        before = len(bucket.log)
        s.read(amt)
        if not en:
            if len(bucket.log) != before:
                return 'bw: read charged while limiting is disabled'
        else:
            pending += amt
            if pending >= thr:
                want += pending
                pending = 0
    if closing_enabled:
        s.enable_bandwidth_limiting()
    else:
        s.disable_bandwidth_limiting()
    if failed:
        s.enable_bandwidth_limiting()
        coord.exception = ValueError('transfer failed')
        n_sleeps = len(ft.slept)
        try:
            s.read(thr)
            return 'bw: read of a failed transfer did not raise'
        except ValueError as e:
            if e is not coord.exception:
                return 'bw: read of a failed transfer raised a different error'
        if len(ft.slept) != n_sleeps:
            return 'bw: failed transfer slept instead of raising'
        return None
    s.close()
    if closing_enabled and pending > 0:
        want += pending
        pending = 0
    granted = 0
    i = 0
    log = bucket.log
    sl = 0
    while i < len(log):
        amt, tok, refused = log[i]
        if tok is not s._request_token:
            return 'bw: consume with a foreign token'
        if refused:
            if sl >= len(ft.slept) or ft.slept[sl] != retry:
                return 'bw: refused consume not followed by sleep(retry_time)'
            sl += 1
            if i + 1 >= len(log) or log[i + 1][0] != amt:
                return 'bw: refused consume not retried with the same amount'
        else:
            granted += amt
        i += 1
    if sl != len(ft.slept):
        return 'bw: slept without a refusal'
    if granted != want:
        return 'bw: bytes charged differ from bytes requested while enabled'
    return None


def upload_wiring(kind, chunked, size, thr, chunk, r1):
    """C13.5: with max_bandwidth set the manager has ONE bucket; upload bodies are throttled exactly while they are
    being sent: bytes read while the request is built (signing pre-read) are not charged, every byte sent is charged
    (directly, or with the remainder at close) - also when botocore wraps the body in AwsChunkedWrapper"""
    from harness import common as H
    from s3transfer.bandwidth import BandwidthLimiter
    env = F.Env()
    s3 = F.FakeS3(env, body_reads=[r1, r1, r1, r1], preread=True)
    s3.chunked = chunked
    cfg = H.TransferConfig(multipart_threshold=thr, multipart_chunksize=chunk, max_bandwidth=10 ** 6)
    fs = F.FakeFS(env)
    m = H.TransferManager(s3, cfg, osutil=F.make_osutils(fs, src_size=size, env=env),
                          executor_cls=H.NonThreadedExecutor)
    if m._bandwidth_limiter is None:
        return 'bw: max_bandwidth set but no bandwidth limiter created'
    bucket = StubBucket(0, 1)
    m._bandwidth_limiter = BandwidthLimiter(bucket, FakeTime())
    src = '/s/source' if kind == 'path' else F.NonSeekableSource(size, env)
    fut = m.upload(src, 'bkt', 'key')
    st, val = H.outcome(fut)
    if st != 'ok':
        return 'bw: upload failed'
    charged = sum(a for a, tok, refused in bucket.log if not refused)
    sent = sum(s3.body_sizes)
    if sent != size:
        return 'bw: harness: bytes sent differ from the size'
    # each body is sent once after one pre-read; reads are charged by the amount REQUESTED, so the charge of a body
    # can exceed its length by the final probing reads but never fall below it
    if charged < sent:
        return 'bw: bytes sent by an upload were not charged to the bandwidth limiter'
    return None


def _reals(*names):
    return [R.fresh(n) for n in names]


def _fail(reason):
    R.dump_witness()
    return reason


def scheduler_wait(abandon, dummy):
    """C13.2: three streams are refused in turn (allocated times t1, t2, t3 > 0); stream 2 is released (or, with
    `abandon`, its transfer failed while it was waiting and it never comes back); then a fourth request is refused.
    Every returned retry_time must be the sum of the allocated times of the requests still waiting, own included."""
    R.begin()
    t1, t2, t3, t4 = _reals('t1', 't2', 't3', 't4')
    for t in (t1, t2, t3, t4):
        if not (t > 0):
            return '~'
    s = ConsumptionScheduler()
    k1, k2, k3, k4 = RequestToken(), RequestToken(), RequestToken(), RequestToken()
    w1 = s.schedule_consumption(1, k1, t1)
    w2 = s.schedule_consumption(1, k2, t2)
    w3 = s.schedule_consumption(1, k3, t3)
    if not (w1 == t1) or not (w2 == t1 + t2) or not (w3 == t1 + t2 + t3):
        return _fail('bw: retry_time is not the sum of the waiting requests\' allocated times')
    if not abandon:
        s.process_scheduled_consumption(k2)
    # with `abandon`, stream 2 left _consume_through_leaky_bucket through the transfer's exception: it is not waiting
    w4 = s.schedule_consumption(1, k4, t4)
    if not (w4 == t1 + t3 + t4):
        return _fail('bw: later request charged for a waiter that is gone (wait time never given back)')
    s.process_scheduled_consumption(k1)
    s.process_scheduled_consumption(k3)
    s.process_scheduled_consumption(k4)
    if not abandon and not (s._total_wait == 0):
        return _fail('bw: total wait not back to zero after every request was released')
    return None


def abandoned_stream(dummy):
    """C13.2 end to end on the real stream + bucket: a throttled stream whose transfer is cancelled while it sleeps
    raises the transfer's error - and afterwards the bucket must not keep charging its allocated time to others"""
    R.begin()
    now, amt1, amt2, last, rate = _reals('now', 'amt1', 'amt2', 'last', 'rate')
    MAX = 100
    for c in (amt1 > 0, amt2 > 0, now > last, rate >= 0):
        if not c:
            return '~'
    tr = BandwidthRateTracker()
    tr._last_time, tr._current_rate = last, rate
    ft = FakeTime(now)
    bucket = LeakyBucket(MAX, time_utils=ft, rate_tracker=tr)
    coord = Coord()
    s1 = BandwidthLimitedStream(F.FakeFile(10, 0), bucket, coord, ft, bytes_threshold=1)

    def cancel_while_sleeping(v):
        ft.slept.append(v)
        coord.exception = ValueError('cancelled while waiting')
    ft.sleep = cancel_while_sleeping
    s1._bytes_seen = amt1
    try:
        s1._consume_through_leaky_bucket()
        admitted1 = True
    except ValueError:
        admitted1 = False
    if admitted1:
        return '~'     # not throttled: nothing to abandon
    # a second transfer's stream is refused now: it must wait for its own allocation only
    tok = RequestToken()
    try:
        bucket.consume(amt2, tok)
        return '~'
    except RequestExceededException as e:
        if not (e.retry_time == amt2 / MAX):
            return _fail('bw: later request charged for a waiter that is gone (wait time never given back)')
    return None


def abandoned_behind(dummy):
    """C13.2 end to end, the abandoned waiter NOT being the newest: stream A is throttled; while it sleeps a second
    transfer's read B is refused (queued behind A) and A's transfer is cancelled.  A raises its transfer's error; a
    third read C refused afterwards must wait for the reads still waiting (B) plus its own allocation - A's is gone"""
    R.begin()
    now, amt1, amt2, amt3, last, rate = _reals('now', 'amt1', 'amt2', 'amt3', 'last', 'rate')
    MAX = 100
    for c in (amt1 > 0, amt2 > 0, amt3 > 0, now > last, rate >= 0):
        if not c:
            return '~'
    tr = BandwidthRateTracker()
    tr._last_time, tr._current_rate = last, rate
    ft = FakeTime(now)
    bucket = LeakyBucket(MAX, time_utils=ft, rate_tracker=tr)
    coord = Coord()
    s1 = BandwidthLimitedStream(F.FakeFile(10, 0), bucket, coord, ft, bytes_threshold=1)
    st = {'b': None, 'refused': False}

    def behind_then_cancel(v):
        ft.slept.append(v)
        try:
            bucket.consume(amt2, RequestToken())
        except RequestExceededException as e:
            st['b'] = e.retry_time
            st['refused'] = True
        coord.exception = ValueError('cancelled while waiting')
    ft.sleep = behind_then_cancel
    s1._bytes_seen = amt1
    try:
        s1._consume_through_leaky_bucket()
        return '~'     # not throttled: nothing to abandon
    except ValueError:
        pass
    if not st['refused']:
        return '~'
    if not (st['b'] == amt1 / MAX + amt2 / MAX):
        return _fail('bw: retry_time is not the sum of the waiting requests\' allocated times')
    try:
        bucket.consume(amt3, RequestToken())
        return '~'
    except RequestExceededException as e:
        if not (e.retry_time == amt2 / MAX + amt3 / MAX):
            return _fail('bw: later request charged for a waiter that is gone (wait time never given back)')
    return None


def admission(dummy):
    """C13.3 one-step admission rule over the reals from an arbitrary tracker state"""
    R.begin()
    MAX = 100
    last, cur, now, amt = _reals('last', 'cur', 'now', 'amt')
    for c in (cur >= 0, now > last, amt > 0):
        if not c:
            return '~'
    tr = BandwidthRateTracker()
    tr._last_time, tr._current_rate = last, cur
    b = LeakyBucket(MAX, time_utils=FakeTime(now), rate_tracker=tr)
    retry = None
    try:
        b.consume(amt, RequestToken())
        admitted = True
    except RequestExceededException as e:
        admitted = False
        retry = e.retry_time
    alpha = Fraction(0.8)
    proj = alpha * (amt / (now - last)) + (1 - alpha) * cur
    should = proj <= MAX
    if admitted:
        if not should:
            return _fail('bw: request admitted although the projected rate exceeds the limit')
        if not (amt * alpha <= MAX * (now - last)):
            return _fail('bw: admitted amount exceeds (1/alpha) * max * dt')
        if not (tr._current_rate == proj) or not (tr._last_time == now):
            return _fail('bw: tracker not updated with the projected rate')
    else:
        if should:
            return _fail('bw: request refused although the projected rate is within the limit')
        if not (retry == amt / MAX):
            return _fail('bw: retry_time of the only waiter is not amt / max')
        if not (tr._current_rate == cur):
            return _fail('bw: refused request changed the rate')
    return None


def never_delayed(dummy):
    """C13.3: rate <= max and amt/dt <= max  =>  admitted and rate' <= max"""
    R.begin()
    MAX = 100
    last, cur, now, amt = _reals('last', 'cur', 'now', 'amt')
    for c in (cur >= 0, cur <= MAX, now > last, amt > 0, amt <= MAX * (now - last)):
        if not c:
            return '~'
    tr = BandwidthRateTracker()
    tr._last_time, tr._current_rate = last, cur
    b = LeakyBucket(MAX, time_utils=FakeTime(now), rate_tracker=tr)
    try:
        b.consume(amt, RequestToken())
    except RequestExceededException:
        return _fail('bw: traffic below the limit was delayed')
    if not (tr._current_rate <= MAX):
        return _fail('bw: rate invariant broken by traffic below the limit')
    return None


def first_and_backwards(case, dummy):
    """C13.3 corner cases: the first consumption is always admitted; a non-advancing clock refuses (rate = inf)"""
    R.begin()
    MAX = 100
    now, amt, cur = _reals('now', 'amt', 'cur')
    if not (amt > 0) or not (cur >= 0):
        return '~'
    tr = BandwidthRateTracker()
    if case == 'first':
        b = LeakyBucket(MAX, time_utils=FakeTime(now), rate_tracker=tr)
        try:
            b.consume(amt, RequestToken())
        except RequestExceededException:
            return _fail('bw: first consumption refused')
        return None
    tr._last_time, tr._current_rate = now, cur
    b = LeakyBucket(MAX, time_utils=FakeTime(now), rate_tracker=tr)
    try:
        b.consume(amt, RequestToken())
        return _fail('bw: consumption admitted with zero elapsed time')
    except RequestExceededException:
        return None


def two_streams_below_limit(n1, n2, s1, t1, s2, t2):
    """C13.6 (engine CO): two streams consume tiny amounts from one LeakyBucket (demand far below the limit; the clock
    advances by one second at every reading).  LeakyBucket.consume is a co-version generated from the source; the
    interleaving has two preemptions at symbolic steps.  Traffic below the limit must never be delayed, the tracker's
    clock must never run backwards and its rate must stay finite."""
    from vlib import co

    class Clock:
        def __init__(self):
            self.t = 0

        def time(self):
            self.t += 1
            return self.t

        def sleep(self, v):
            pass
    tr = BandwidthRateTracker()
    b = LeakyBucket(10 ** 9, time_utils=Clock(), rate_tracker=tr)
    b._lock = co.MLock()
    bad = []
    last = [None]

    def stream(n):
        tok = RequestToken()
        for _ in range(3):
            if _ < n:
                try:
                    yield from b._co_consume(1, tok)
                except RequestExceededException:
                    bad.append('bw: traffic below the limit was delayed')
                    return

    def watch():
        lt = tr._last_time
        if lt is not None:
            if last[0] is not None and lt < last[0]:
                return 'bw: the rate tracker\'s clock ran backwards'
            last[0] = lt
        cr = tr._current_rate
        if cr is not None and cr == float('inf'):
            return 'bw: infinite rate recorded'
        return None
    pre = []
    if s1 >= 0:
        pre.append((s1, t1))
        if s2 >= 0:
            pre.append((s1 + 1 + s2, t2))
    sch = co.Scheduler(preempt=pre, max_steps=300)
    v = sch.run([stream(n1), stream(n2)], watch)
    if v:
        return v if v.startswith('bw:') else 'bw: ' + v
    if bad:
        return bad[0]
    return None


_INT = ('thr: int, a1: int, e1: bool, a2: int, e2: bool, a3: int, e3: bool, closing_enabled: bool, retry: int')
_RM = dict(real_model=True)
OBLIGATIONS = [
    dict(id='C13.5', impl='upload_wiring', params='size: int, thr: int, chunk: int, r1: int',
         cases=[('path', False), ('path', True), ('stream', True)],
         pre=['1 <= size', '1 <= thr', '5 * 1024 ** 2 <= chunk <= 5 * 1024 ** 3', 'size <= 2 * chunk', '-1 <= r1'],
         splits=[['size < thr'], ['size >= thr']], timeout=(170, 900),
         bounds='<= 2 parts; size/threshold/chunk symbolic; every body pre-read once while disabled, then sent; the '
                'request-created handlers see the body directly or wrapped in botocore AwsChunkedWrapper',
         encodes=['TransferManager.__init__ (bandwidth limiter)', 'UploadInputManager._wrap_fileobj',
                  'signal_not_transferring / signal_transferring', 'BandwidthLimitedStream.read/close'],
         assumptions=['S1', 'S2', 'A3']),
    dict(id='C13.6', impl='two_streams_below_limit', params='s1: int, t1: int, s2: int, t2: int',
         cases=[(2, 2), (3, 1)], pre=['-1 <= s1 <= 24', '-1 <= s2 <= 24', '0 <= t1 <= 1', '0 <= t2 <= 1'],
         splits=[['s1 <= 8'], ['8 < s1 <= 16'], ['16 < s1']], timeout=(170, 900),
         bounds='2 streams x <= 3 consumes of 1 byte at 1 GB/s limit, clock +1 s per reading; statement-level '
                'interleaving of LeakyBucket.consume with two preemptions at symbolic steps',
         encodes=['LeakyBucket.consume (co-version from the source)', 'BandwidthRateTracker'],
         assumptions=['co-versions generated from the source', 'integer clock']),
    dict(id='C13.1', impl='stream_accounting', params=_INT, cases=[(0, False), (1, False), (2, False), (0, True), (1, True)],
         pre=['1 <= thr', '0 <= a1 and 0 <= a2 and 0 <= a3', '1 <= retry'], timeout=(120, 600),
         bounds='3 reads of symbolic (unbounded) amounts with symbolic enabled flags, symbolic threshold, 0..2 refusals '
                'per consume',
         encodes=['BandwidthLimitedStream.read', '_consume_through_leaky_bucket', 'close', 'enable/disable'],
         assumptions=['S1']),
    dict(id='C13.2', impl='scheduler_wait', params='dummy: int', cases=[(False,)], pre=['dummy == 0'],
         timeout=(60, 300), bounds='4 requests, allocated times symbolic positive reals', real_model=True,
         encodes=['ConsumptionScheduler.schedule_consumption', 'process_scheduled_consumption'],
         assumptions=['S3 reals model (A2: IEEE rounding outside)']),
    dict(id='C13.2e', impl='abandoned_stream', params='dummy: int', pre=['dummy == 0'], timeout=(60, 300),
         bounds='one abandoned waiter, one later request; amounts, instants, prior rate symbolic reals', real_model=True,
         encodes=['BandwidthLimitedStream._consume_through_leaky_bucket', 'LeakyBucket.consume',
                  'ConsumptionScheduler'], assumptions=['S3 reals model']),
    dict(id='C13.2f', impl='abandoned_behind', params='dummy: int', pre=['dummy == 0'], timeout=(60, 300),
         bounds='one abandoned waiter with a second read queued behind it, one later request; amounts, instants, '
                'prior rate symbolic reals', real_model=True,
         encodes=['BandwidthLimitedStream._consume_through_leaky_bucket', 'LeakyBucket.consume',
                  'LeakyBucket.cancel_scheduled_consumption', 'ConsumptionScheduler'], assumptions=['S3 reals model']),
    dict(id='C13.3a', impl='admission', params='dummy: int', pre=['dummy == 0'], timeout=(60, 300), real_model=True,
         bounds='one step from an arbitrary tracker state (last time, rate >= 0, now > last, amt > 0: all reals)',
         encodes=['LeakyBucket.consume', '_projected_to_exceed_max_rate', 'BandwidthRateTracker.get_projected_rate',
                  'record_consumption_rate', '_calculate_exponential_moving_average_rate'],
         assumptions=['S3 reals model; alpha enters as the exact binary value of 0.8']),
    dict(id='C13.3b', impl='never_delayed', params='dummy: int', pre=['dummy == 0'], timeout=(60, 300), real_model=True,
         bounds='as C13.3a with invariant rate <= max and demand amt/dt <= max',
         encodes=['LeakyBucket.consume', 'BandwidthRateTracker'], assumptions=['S3 reals model']),
    dict(id='C13.3c', impl='first_and_backwards', params='dummy: int', cases=[('first',), ('zero-dt',)],
         pre=['dummy == 0'], timeout=(60, 300), real_model=True, bounds='one step',
         encodes=['BandwidthRateTracker._calculate_rate'], assumptions=['S3 reals model']),
]
