"""C01 — upload and copy produce a byte-exact destination object"""
from harness import common as H
from vlib import fakes as F

MiB = 1024 ** 2
# private-attribute groups (vlib/layout.py) the obligations of this module depend on
LAYOUT = ['manager', 'coord', 'task', 'bex', 'tasksem', 'sws'] + ['rfc', 'nonseek', 'agg']

EXPLANATION = (
    'C01: real TransferManager.upload / copy (submission task, input managers, ReadFileChunk, UploadPartTask, '
    'CompleteMultipartUploadTask, CopyPartTask) run under CrossHair over an in-memory S3 that plays botocore\'s body '
    'protocol (disable progress, optional pre-read + rewind, enable, chunked reads of symbolic size, optional rewind '
    'and re-send).  size / threshold / chunksize / stream start offset are unconstrained symbolic integers (bounded '
    'by <= 3 parts); the oracle is that the stored object tiles the source range in order and that '
    'CompleteMultipartUpload lists parts 1..n ascending with the ETag (and part checksum) returned for each. '
    'ReadFileChunk is additionally checked by one inductive step from an arbitrary state (any number of earlier '
    'reads / rewinds), the non-seekable _read kernel from an arbitrary buffer state.')


def probe():
    import s3transfer.upload as U
    import s3transfer.utils as X
    miss = [n for n in ('UploadNonSeekableInputManager', 'UploadSeekableInputManager', 'UploadFilenameInputManager')
            if not hasattr(U, n)]
    if not hasattr(X, 'ReadFileChunk'):
        miss.append('ReadFileChunk')
    return miss


def _upload_oracle(c, kind, size, thr, off, multipart_expected, checksum=None):
    st, val = c.outcome
    if st != 'ok':
        return 'upload: future not successful (%s)' % st
    if c.s3.bad:
        return 'upload: ' + c.s3.bad
    ops = c.s3.ops()
    blobs = c.s3.objects.get('key')
    if blobs is None:
        return 'upload: no object stored'
    if not F.tiles_in_order(F.segs_of(blobs), off, off + size):
        return 'upload: stored object differs from the source'
    if multipart_expected is not None:
        if multipart_expected:
            if 'put_object' in ops:
                return 'upload: single request at/above the threshold'
        elif ops != ['put_object']:
            return 'upload: not a single PutObject below the threshold'
    if 'create_multipart_upload' in ops:
        if ops.count('create_multipart_upload') != 1:
            return 'upload: more than one multipart upload created'
        uid = list(c.s3.uploads)[0]
        r = c.s3.check_complete_args(uid, checksum)
        if r:
            return 'upload: ' + r
        r = c.s3.check_multipart_lifecycle(True)
        if r:
            return 'upload: ' + r
    r = H.progress_reason(c, size, True)
    if r:
        return 'upload: ' + r
    if kind in ('seekable', 'duck'):
        if c.src.pos != off + size:
            return 'upload: seekable source not left at EOF'
        for (p, k) in c.src.reads:
            if p < off:
                return 'upload: read before the start offset'
    return None


def upload(kind, resend, preread, cks, size, thr, chunk, off, r1):
    """C01.1/2: upload from a path or a seekable stream at offset `off`"""
    extra = {'ChecksumAlgorithm': 'crc32'} if cks else None
    c = H.run_upload(kind, size, thr, chunk, off=off, body_reads=[r1, r1, r1, r1, r1, r1, r1, r1],
                     resend=resend, preread=preread, extra_args=extra)
    return _upload_oracle(c, kind, size, thr, off, size >= thr, 'ChecksumCRC32' if cks else None)


def upload_stream(short, size, thr, chunk, s1, s2, r1):
    """C01.3: non-seekable stream of unknown size.  With short reads (A4 off) only byte-exactness is judged."""
    c = H.run_upload('nonseekable', size, thr, chunk, nd=(s1, s2), body_reads=[r1, r1, r1, r1], short=short)
    return _upload_oracle(c, 'nonseekable', size, thr, 0, None if short else size >= thr)


def nonseekable_read(ilen, left, amount, truncate):
    """C01.3 kernel: UploadNonSeekableInputManager._read from an arbitrary buffer state: returns the next
    min(amount, ilen+left) bytes in order and keeps / drops the buffered prefix as requested"""
    from s3transfer.upload import UploadNonSeekableInputManager
    m = UploadNonSeekableInputManager(None, None)
    m._initial_data = F.Blob(0, ilen) if ilen > 0 else b''
    stream = F.FakeFile(ilen + left, ilen, None, 'src', seekable=False)
    got = m._read(stream, amount, truncate)
    want = amount if amount < ilen + left else ilen + left
    if len(got) != want:
        return 'read: wrong amount returned'
    if want > 0 and not F.tiles_in_order(got.segs if isinstance(got, F.Blob) else (), 0, want):
        return 'read: returned bytes are not the next bytes of the stream'
    # what a following full read would deliver must continue seamlessly (truncate) / restart at 0 (no truncate)
    rest = m._read(stream, ilen + left + 1, True)
    start = want if truncate else 0
    if ilen == 0 and not truncate:
        start = want        # nothing buffered: the stream itself moved on
    if not truncate and ilen > 0 and amount > ilen:
        start = 0           # buffer kept, stream advanced: known behaviour of truncate=False beyond the buffer
        # bytes [ilen, want) were consumed from the stream and are not buffered -> only legal when the caller
        # keeps `got` as the new buffer (requires_multipart_upload does exactly that)
        return None
    if len(rest) != ilen + left - start:
        return 'read: following read has wrong length'
    if len(rest) > 0 and not F.tiles_in_order(rest.segs, start, ilen + left):
        return 'read: following read not contiguous'
    return None


def read_file_chunk_step(kind, full, start, csize, pos, a):
    """C01.4 inductive step on the real ReadFileChunk: from ANY state reachable by earlier reads/seeks
    (amount_read = pos >= 0, underlying file at start+pos) one operation keeps reads inside [start,start+size),
    contiguous with the logical position; seek(0) then read-to-end returns exactly [start, start+size)."""
    from s3transfer.utils import ReadFileChunk
    f = F.FakeFile(full, start)
    c = ReadFileChunk(f, csize, full)
    size = csize if csize < full - start else full - start
    if len(c) != size:
        return 'rfc: wrong chunk length'
    c._amount_read = pos
    f.pos = start + pos
    if kind == 0:
        d = c.read(a if a >= 0 else None)
        want = size - pos
        if want < 0:
            want = 0
        if a >= 0 and a < want:
            want = a
        if len(d) != want:
            return 'rfc: read returned wrong amount'
        if want > 0 and not F.tiles_in_order(d.segs, start + pos, start + pos + want):
            return 'rfc: read returned bytes outside / not at the logical position'
        if c.tell() != pos + want:
            return 'rfc: position not advanced by the bytes read'
    elif kind == 1:
        c.seek(a)
        if c.tell() != (a if a > 0 else 0) or f.pos != start + c.tell():
            return 'rfc: seek(a) not re-based on the chunk start'
    elif kind == 2:
        c.seek(0)
        d = c.read()
        if len(d) != size or (size > 0 and not F.tiles_in_order(d.segs, start, start + size)):
            return 'rfc: rewind + read does not return the whole chunk'
        if len(c.read(1)) != 0:
            return 'rfc: data after the end of the chunk'
    return None


def main_kwargs_order(n, r0, r1, r2, r3):
    """C01.5: Task._get_all_main_kwargs collects list results in submission order whatever they are"""
    from s3transfer.futures import TransferCoordinator
    from s3transfer.tasks import Task

    class Fut:
        def __init__(self, v):
            self.v = v

        def result(self):
            return self.v

    vals = [r0, r1, r2, r3][:n]
    t = Task(TransferCoordinator(), main_kwargs={'x': 1}, pending_main_kwargs={'parts': [Fut(v) for v in vals],
                                                                               'upload_id': Fut('u')})
    kw = t._get_all_main_kwargs()
    if kw.get('x') != 1 or kw.get('upload_id') != 'u':
        return 'kwargs: plain / single pending value wrong'
    got = kw.get('parts')
    if len(got) != n:
        return 'kwargs: wrong number of results'
    for i in range(n):
        if got[i] is not vals[i]:
            return 'kwargs: results not in submission order'
    return None


def copy(cks, size, thr, chunk):
    """C01.6: copy, single or multipart; destination assembled from the decoded CopySourceRanges"""
    extra = {'ChecksumAlgorithm': 'SHA256'} if cks else None
    c = H.run_copy(size, thr, chunk, extra_args=extra)
    return _copy_oracle(c, size, thr, cks)


def _copy_oracle(c, size, thr, cks=False):
    st, val = c.outcome
    if st != 'ok':
        return 'copy: future not successful (%s)' % st
    if c.s3.bad:
        return 'copy: ' + c.s3.bad
    ops = c.s3.ops()
    r = c.s3.check_object('key', size)
    if r:
        return 'copy: ' + r
    if size < thr:
        if ops != ['head_object', 'copy_object']:
            return 'copy: not a single CopyObject below the threshold'
    else:
        if 'copy_object' in ops:
            return 'copy: single request at/above the threshold'
        uid = list(c.s3.uploads)[0]
        r = c.s3.check_complete_args(uid, 'ChecksumSHA256' if cks else None)
        if r:
            return 'copy: ' + r
        r = c.s3.check_multipart_lifecycle(True)
        if r:
            return 'copy: ' + r
    r = H.progress_reason(c, size, True)
    if r:
        return 'copy: ' + r
    return None


def legacy_upload(size, c0, c1, c2):
    """C01.7: legacy S3Transfer.upload_file (MultipartUploader): the pool's part uploads run and complete in an order
    decided by symbolic choices (lazy pool model, harness/legacy.py); the parts must still be listed 1..n"""
    from harness import legacy as L
    M = 1024 ** 2
    c = L.upload(size, 5 * M, 5 * M, choices=(c0, c1, c2))
    if c.outcome[0] == 'stuck':
        return '~'
    if c.outcome[0] != 'ok':
        return 'upload: legacy upload failed'
    if c.s3.bad:
        return 'upload: legacy ' + c.s3.bad
    r = c.s3.check_object('key', size)
    if r:
        return 'upload: legacy ' + r
    if size >= 5 * M:
        if len(c.s3.uploads) != 1:
            return 'upload: legacy not exactly one multipart upload'
        r = c.s3.check_complete_args(list(c.s3.uploads)[0]) or c.s3.check_multipart_lifecycle(True)
        if r:
            return 'upload: legacy ' + r
    return None


_UP = 'size: int, thr: int, chunk: int, off: int, r1: int'
_UPRE = ['0 <= size', '1 <= thr', '1 <= chunk <= 5 * 1024 ** 3', '0 <= off', 'size <= 3 * max(chunk, 5 * 1024 ** 2)',
         'size <= 10000 * chunk', '-1 <= r1']
_SPL = [['size < thr'], ['size >= thr', 'size <= max(chunk, 5 * 1024 ** 2)'],
        ['size >= thr', 'max(chunk, 5 * 1024 ** 2) < size <= 2 * max(chunk, 5 * 1024 ** 2)'],
        ['size >= thr', '2 * max(chunk, 5 * 1024 ** 2) < size']]
_E = 'max(chunk, 5 * 1024 ** 2)'
_SPL3T = [['size < thr'],
          ['size >= thr', 'size <= ' + _E],
          ['size >= thr', _E + ' < size <= 2 * ' + _E, 'thr <= ' + _E],
          ['size >= thr', _E + ' < size <= 2 * ' + _E, 'thr > ' + _E],
          ['size >= thr', '2 * ' + _E + ' < size', 'thr <= ' + _E],
          ['size >= thr', '2 * ' + _E + ' < size', _E + ' < thr <= 2 * ' + _E],
          ['size >= thr', '2 * ' + _E + ' < size', '2 * ' + _E + ' < thr']]
_SPL3 = [sp + ['s2 == 0'] for sp in _SPL3T]
OBLIGATIONS = [
    dict(id='C01.1', impl='upload', params=_UP, pre=_UPRE + ['off == 0'],
         cases=[('path', 0, False, False), ('path', 1, True, True)], splits=_SPL, timeout=(150, 900),
         bounds='<= 3 parts; size/threshold/chunksize symbolic, chunksize <= 5 GiB and size <= 10000*chunksize (no doubling / upper clamp in the e2e runs: those are C14.1 at real scale); first body read of symbolic '
                'size; case 2: every body pre-read while disabled, then sent twice (1 rewind)',
         encodes=['TransferManager.upload', 'UploadSubmissionTask._submit', 'UploadFilenameInputManager',
                  'ReadFileChunk', 'DeferredOpenFile', 'PutObjectTask', 'UploadPartTask', 'CreateMultipartUploadTask',
                  'CompleteMultipartUploadTask', 'ChunksizeAdjuster', 'AggregatedProgressCallback'],
         assumptions=['S1', 'S2', 'A3 botocore body protocol', 'identity-content data']),
    dict(id='C01.2', impl='upload', params=_UP, pre=_UPRE,
         cases=[('seekable', 0, False, False), ('seekable', 1, False, True), ('duck', 0, False, False)], splits=_SPL,
         timeout=(150, 900),
         bounds='as C01.1; stream start offset symbolic and unbounded; third case: a stream offering only read/seek/tell',
         encodes=['UploadSeekableInputManager', 'BytesIO part buffers (BlobIO)', 'ReadFileChunk'],
         assumptions=['S1', 'S2', 'A3', 'identity-content data']),
    dict(id='C01.3', impl='upload_stream', params='size: int, thr: int, chunk: int, s1: int, s2: int, r1: int',
         pre=['0 <= size', '1 <= thr', '1 <= chunk <= 5 * 1024 ** 3', 'size <= 3 * max(chunk, 5 * 1024 ** 2)',
              '-1 <= r1', '0 <= s1 and 0 <= s2'],
         cases=[(False,)], cases_thorough=[(False,), (True,)],
         splits=_SPL3, splits_thorough=_SPL3T, timeout=(150, 1200),
         bounds='<= 3 parts; unknown size; case 2: the stream returns short reads of symbolic length (two of them)',
         encodes=['UploadNonSeekableInputManager.requires_multipart_upload', '_read', 'yield_upload_part_bodies',
                  '_wrap_data'],
         assumptions=['S1', 'S2', 'A3', 'A4 (case 1 only)', 'identity-content data']),
    dict(id='C01.3s', impl='upload_stream', params='size: int, thr: int, chunk: int, s1: int, s2: int, r1: int',
         pre=['0 <= size', '1 <= thr', '1 <= chunk <= 5 * 1024 ** 3', 'size <= 2 * max(chunk, 5 * 1024 ** 2)',
              'r1 == -1', '0 <= s1 and s2 == 0'],
         cases=[(True,)], splits=[['size < thr'], ['size >= thr', 'size <= ' + _E, 's1 < thr'],
                                  ['size >= thr', 'size <= ' + _E, 's1 >= thr']], tier='quick-only',
         timeout=(150, 150),
         bounds='<= 2 parts (+1 from a short read); the threshold read returns a short read of symbolic length',
         encodes=['UploadNonSeekableInputManager'], assumptions=['S1', 'S2', 'A3', 'identity-content data']),
    dict(id='C01.3k', impl='nonseekable_read', params='ilen: int, left: int, amount: int, truncate: bool',
         pre=['0 <= ilen', '0 <= left', '1 <= amount'], timeout=(60, 300),
         bounds='none (buffer length, remaining stream, amount unbounded)',
         encodes=['UploadNonSeekableInputManager._read'], assumptions=['identity-content data'],
         layout=['_initial_data']),
    dict(id='C01.4', impl='read_file_chunk_step', params='full: int, start: int, csize: int, pos: int, a: int',
         cases=[(0,), (1,), (2,)], pre=['0 <= start <= full', '0 <= csize', '0 <= pos', '-1 <= a'],
         timeout=(60, 300),
         bounds='none: inductive step from any state (any number of earlier reads / rewinds)',
         encodes=['ReadFileChunk.read', 'ReadFileChunk.seek', 'ReadFileChunk._calculate_file_size'],
         assumptions=['representation invariant: file position = start + amount_read'], layout=['_amount_read']),
    dict(id='C01.5', impl='main_kwargs_order', params='r0: int, r1: int, r2: int, r3: int',
         cases=[(1,), (3,), (4,)], pre=[], timeout=(60, 300), bounds='<= 4 part futures',
         encodes=['Task._get_all_main_kwargs'], assumptions=[]),
    dict(id='C01.6', impl='copy', params='size: int, thr: int, chunk: int',
         pre=['0 <= size', '1 <= thr', '1 <= chunk <= 5 * 1024 ** 3', 'size <= 3 * max(chunk, 5 * 1024 ** 2)',
              'size <= 10000 * chunk'],
         cases=[(False,), (True,)], splits=_SPL[:1] + [['size >= thr']], timeout=(150, 900),
         bounds='<= 3 parts; all sizes symbolic',
         encodes=['TransferManager.copy', 'CopySubmissionTask._submit', 'CopyObjectTask', 'CopyPartTask',
                  'calculate_range_parameter', '_get_transfer_size'],
         assumptions=['S1', 'S2', 'identity-content data']),
    dict(id='C01.7', impl='legacy_upload', params='size: int, c0: int, c1: int, c2: int', groups=['legacy'],
         pre=['0 <= c0 <= 2 and 0 <= c1 <= 2 and 0 <= c2 <= 2'],
         splits=[['0 <= size < 5 * 1024 ** 2'], ['5 * 1024 ** 2 <= size <= 10 * 1024 ** 2'],
                 ['10 * 1024 ** 2 < size <= 15 * 1024 ** 2']], timeout=(120, 600),
         bounds='legacy S3Transfer.upload_file, <= 3 parts of 5 MiB, size symbolic; the pool\'s part uploads run and '
                'complete in an order decided by 3 symbolic choices',
         encodes=['s3transfer.S3Transfer.upload_file', 'MultipartUploader.upload_file', '_upload_parts',
                  '_upload_one_part'],
         assumptions=['S1', 'S2', 'identity-content data', 'lazy pool model: tasks run to completion in any order']),
]
