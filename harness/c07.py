"""C07 — cancellation is effective, clean and truthfully reported"""
from harness import common as H
from harness import faults as FT
from harness import nsrun as N
from vlib import ns

# private-attribute groups (vlib/layout.py) the obligations of this module depend on
LAYOUT = ['manager', 'coord', 'task', 'bex', 'tasksem', 'sws']

EXPLANATION = (
    'C07: the real TransferManager over the model executor (engine NS): nothing runs until the symbolic schedule '
    'starts it; the cancellation is injected at a SYMBOLIC point - before the k-th task start of the top-level loop '
    '(all six entry points: future.cancel(), shutdown(cancel=True, cancel_msg=m), with-block exit through an ordinary '
    'exception / KeyboardInterrupt, Ctrl-C inside result(), Ctrl-C inside shutdown()) or inside the n-th environment call (future.cancel() from '
    'another thread while a request / read / write is in flight); which queued tasks start nested inside environment '
    'calls is symbolic too.  Oracle: no entry point raises, every unfinished transfer ends with CancelledError(m) '
    '(FatalError for the ordinary exception), a transfer that had not started issues no S3 request at all, a finished '
    'transfer keeps its outcome, success implies the complete effect, cleanups per C05/C06.')


def cancel_run(transfer, entry, where, size, thr, chunk, io, at, c0, c1, c2, c3):
    S = ns.Sched([c0, c1, c2, c3])
    c = N.build(transfer, size, thr, chunk, io, S)
    if where == 'point':
        def fire():
            c.cancelled = True
            c.started_before_cancel = c.future._coordinator.status != 'not-started'
            c.done_before_cancel = c.future.done()
            c.outcome_before = None
            c.future.cancel()
        S.cancel_at = at
        S.cancel_fn = fire
        v = N.go(c, S, None, -1)
        c.cancelled = S.cancelled_at_point is not None
    else:
        v = N.go(c, S, entry, at)
    if v:
        return v if v == '~' else 'c07: ' + v[5:]
    st, val = N.finish(c)
    if not c.cancelled:
        # cancel point beyond the end of the run: plain success expected
        if st != 'ok':
            return 'c07: uncancelled transfer did not succeed'
        return FT.pick(FT.judge(c, transfer, size, thr), 'c0')
    if c.cancel_error is not None:
        return 'c07: the cancellation entry point raised %s' % type(c.cancel_error).__name__
    if not c.barrier_ok:
        return 'c07: shutdown / with-block exit returned while transfers or tasks of the manager were still running'
    if c.done_before_cancel:
        if c.outcome_before is not None and (st, val if st == 'exc' else None) != (
                c.outcome_before[0], c.outcome_before[1] if c.outcome_before[0] == 'exc' else None):
            return 'c07: a finished transfer changed its outcome when cancelled'
        return None
    etype, emsg = N.expected_error(entry if where == 'top' else 'future')
    status = c.future._coordinator.status
    if (st == 'ok') != (status == 'success'):
        return 'c07: outcome not truthfully reported (result() and status disagree)'
    if st == 'ok':
        if not c.started_before_cancel:
            return 'c07: a transfer cancelled before it started reports success'
    elif st == 'exc':
        if not isinstance(val, H.CancelledError):
            return 'c07: cancelled transfer reports an error that is not the cancellation error'
        if etype is H.FatalError and not isinstance(val, H.FatalError):
            return 'c07: exception in the with-block not reported as FatalError'
        if etype is H.CancelledError and isinstance(val, H.FatalError):
            return 'c07: FatalError reported for a plain cancellation'
        if str(val) != emsg:
            return 'c07: cancellation error does not carry the given message'
    else:
        return 'c07: transfer not done after cancellation'
    if not c.started_before_cancel and len(c.s3.calls) > 0:
        return 'c07: S3 request issued for a transfer that had not started when it was cancelled'
    rs = FT.judge(c, transfer, size, thr, cancelled=True)
    for pre in ('c03: success', 'c05', 'c06', 'c08', 'c12'):
        r = FT.pick(rs, pre)
        if r:
            return 'c07: ' + r
    return None


_P = 'size: int, thr: int, chunk: int, io: int, at: int, c0: int, c1: int, c2: int, c3: int'
_CH = ['0 <= c0 <= 2 and 0 <= c1 <= 2 and 0 <= c2 <= 2 and 0 <= c3 <= 2']
_UP2 = ['1 <= thr <= size', '5 * 1024 ** 2 <= chunk <= 5 * 1024 ** 3', 'chunk < size <= 2 * chunk', 'io == 1']
_DN2 = ['1 <= thr <= size', '1 <= chunk', 'chunk < size <= 2 * chunk', 'chunk <= io']
_SH = {'up-path': _UP2, 'up-stream': _UP2, 'copy': _UP2, 'down-path': _DN2, 'down-stream': _DN2,
       'down-seekable': _DN2, 'delete': ['size == 0', 'thr == 1', 'chunk == 1', 'io == 1']}


_QUICK = ['up-path', 'down-path', 'delete']
_NESTABLE = ['down-path', 'down-stream', 'down-seekable', 'up-stream']   # nested starts that are not all pruned


def _obs():
    out = []
    for tr in ['up-path', 'up-stream', 'copy', 'down-path', 'down-stream', 'delete']:
        tier = 'quick' if tr in _QUICK else 'thorough'
        nest = tr in _NESTABLE
        for entry in N.ENTRIES:
            out.append(dict(
                id='C07.top-%s-%s' % (tr, entry), impl='cancel_run', params=_P, cases=[(tr, entry, 'top')], tier=tier,
                pre=_CH + _SH[tr] + ['-1 <= at <= 12'],
                splits=[['c0 == 0', 'c1 == 0', 'c2 == 0', 'c3 == 0']] + ([['c0 >= 1', 'c2 == 0', 'c3 == 0']] if nest else []),
                splits_thorough=[['c0 == 0'], ['c0 >= 1']] if nest else [['c0 == 0']],
                timeout=(170, 900),
                bounds='2-part transfer; cancel before the at-th task start (symbolic, incl. before the submission '
                       'task = not started); symbolic schedule choices in 0..2 for nested starts inside environment '
                       'calls (quick: 2, thorough: 4); request concurrency 2',
                encodes=['TransferManager.shutdown/_shutdown/__exit__', 'TransferCoordinatorController.cancel/wait',
                         'TransferCoordinator.cancel', 'TransferFuture.result (KeyboardInterrupt)', 'Task.__call__'],
                assumptions=['S1', 'S2', 'nested (LIFO) schedules only', 'model threading primitives']))
        q = [['c0 == 0', 'c1 == 0', 'c2 == 0', 'c3 == 0', 'at <= 12'], ['c0 == 0', 'c1 == 0', 'c2 == 0', 'c3 == 0', '12 < at <= 24'],
             ['c0 == 0', 'c1 == 0', 'c2 == 0', 'c3 == 0', '24 < at']]
        if nest:
            q += [['c0 >= 1', 'c1 == 0', 'c2 == 0', 'c3 == 0', 'at <= 12'], ['c0 >= 1', 'c1 == 0', 'c2 == 0', 'c3 == 0', '12 < at <= 24'],
                  ['c0 >= 1', 'c1 == 0', 'c2 == 0', 'c3 == 0', '24 < at']]
        th = [[a, b] for a in (['c0 == 0'] + (['c0 == 1', 'c0 == 2'] if nest else []))
              for b in ('at <= 8', '8 < at <= 16', '16 < at <= 24', '24 < at <= 32', '32 < at')]
        out.append(dict(
            id='C07.point-%s' % tr, impl='cancel_run', params=_P, cases=[(tr, 'future', 'point')], tier=tier,
            pre=_CH + _SH[tr] + ['-1 <= at <= 60'], splits=q, splits_thorough=th, timeout=(170, 1200),
            bounds='future.cancel() from another thread inside the at-th scheduling point (entry / return of every '
                   'environment call), symbolic; otherwise as above',
            encodes=['TransferCoordinator.cancel', 'Task.__call__ skip-when-done', 'InterruptReader.read'],
            assumptions=['S1', 'S2', 'nested (LIFO) schedules only', 'model threading primitives']))
    return out


OBLIGATIONS = _obs()

from harness.corace import OB_DEPS, task_dependencies  # noqa: E402
OBLIGATIONS += [dict(OB_DEPS, id='C07.deps', cases=[(f1, f2, True) for f1 in (False, True) for f2 in (False, True)])]
