"""generates the SMT-LIB lemmas justifying shim S2 (exact quotient)"""
import sys


def l1_fp(eb, sb, bound_bits):
    """int(ceil(fl(a)/fl(b))) == ceil_int(a/b) for 0 <= a < 2^bound_bits, 1 <= b < 2^bound_bits in Float(eb,sb)"""
    w = bound_bits + 2
    return f"""; L1 scaled: IEEE-754 format (eb={eb}, sb={sb}), operands below 2^{bound_bits}
(set-logic QF_BVFP)
(declare-const a (_ BitVec {w}))
(declare-const b (_ BitVec {w}))
(assert (bvult a (_ bv{2 ** bound_bits} {w})))
(assert (bvult b (_ bv{2 ** bound_bits} {w})))
(assert (bvuge b (_ bv1 {w})))
(define-fun fa () (_ FloatingPoint {eb} {sb}) ((_ to_fp_unsigned {eb} {sb}) RNE a))
(define-fun fb () (_ FloatingPoint {eb} {sb}) ((_ to_fp_unsigned {eb} {sb}) RNE b))
(define-fun q () (_ FloatingPoint {eb} {sb}) (fp.div RNE fa fb))
(define-fun c () (_ FloatingPoint {eb} {sb}) (fp.roundToIntegral RTP q))
(define-fun ci () (_ BitVec {w}) ((_ fp.to_ubv {w}) RTZ c))
(define-fun ref () (_ BitVec {w}) (bvudiv (bvadd a (bvsub b (_ bv1 {w}))) b))
(assert (not (= ci ref)))
(check-sat)
"""


L2 = """; L2: ceil(a/b) > p  <=>  a > p*b   for integers, b >= 1 (Python: -((-a)//b))
(set-logic QF_NIA)
(declare-const a Int)
(declare-const b Int)
(declare-const p Int)
(assert (>= b 1))
(define-fun c () Int (- (div (- a) b)))
(assert (not (= (> c p) (> a (* p b)))))
(check-sat)
"""

L2B = """; L2b: ceil(a/b) <= p  <=>  a <= p*b ; ceil(a/b) >= p <=> a > (p-1)*b ; ceil(a/b) < p <=> a <= (p-1)*b
(set-logic QF_NIA)
(declare-const a Int)
(declare-const b Int)
(declare-const p Int)
(assert (>= b 1))
(define-fun c () Int (- (div (- a) b)))
(assert (not (and (= (<= c p) (<= a (* p b))) (= (>= c p) (> a (* (- p 1) b))) (= (< c p) (<= a (* (- p 1) b))))))
(check-sat)
"""

L1CORE = """; L1 linear core at p = 53: with k = a div b, m = k*b, r = a - m > 0 the gap 1/b exceeds half an ulp of k
; because m < 2^53 (=> 1/b > k*2^-53 >= ulp(k)/2).  Linear after naming m.
(set-logic QF_LIA)
(declare-const a Int)
(declare-const m Int)
(declare-const r Int)
(assert (= a (+ m r)))
(assert (>= r 1))
(assert (>= m 0))
(assert (< a 9007199254740992))
(assert (not (< m 9007199254740992)))
(check-sat)
"""

if __name__ == '__main__':
    out = sys.argv[1]
    import os
    os.makedirs(out, exist_ok=True)
    open(out + '/l1_5_11_unsat.smt2', 'w').write(l1_fp(5, 11, 11))
    open(out + '/l1_5_11_tight_sat.smt2', 'w').write(l1_fp(5, 11, 12))
    open(out + '/l1_6_14_unsat.smt2', 'w').write(l1_fp(6, 14, 14))
    open(out + '/l2_unsat.smt2', 'w').write(L2)
    open(out + '/l2b_unsat.smt2', 'w').write(L2B)
    open(out + '/l1core_unsat.smt2', 'w').write(L1CORE)
