"""Engine CO (DESIGN 2.6): monitor-level / statement-level interleavings of small classes.

On every run the source of the selected methods is read from /repo (inspect.getsource) and an ast.NodeTransformer
produces generator "co-versions" `_co_<method>`: a yield before every statement that is not inside a `with <lock>`
block, lock acquisition / condition wait / queue get become blocking points, calls to other co-versioned methods of
the same object become `yield from`.  A scheduler advances the generators; which one runs next (and which waiter a
notify wakes) are symbolic integers; after the choices are used up the current thread keeps running."""
import ast
import inspect
import textwrap


class SelfDeadlock(Exception):
    pass


CUR = [0]   # current model thread id (1-based); 0 = outside


class MLock:
    def __init__(self):
        self.owner = None

    # plain (atomic) use from untransformed code
    def __enter__(self):
        if self.owner is not None:
            if self.owner == CUR[0]:
                raise SelfDeadlock('re-acquisition of a non-reentrant lock by its owner')
            raise RuntimeError('untransformed code would block on a lock held by another model thread')
        self.owner = CUR[0]
        return self

    def __exit__(self, *a):
        self.owner = None

    def acquire(self, *a, **k):
        return self.__enter__() is not None

    def release(self):
        self.owner = None


class MCondition:
    def __init__(self, lock=None):
        self.lock = lock if lock is not None else MLock()
        self.waiters = []
        self.notifications = 0

    @property
    def owner(self):
        return self.lock.owner

    @owner.setter
    def owner(self, v):
        self.lock.owner = v

    # atomic use from untransformed code (e.g. release() called as a plain method)
    def acquire(self, *a, **k):
        return self.lock.acquire()

    def release(self):
        self.lock.release()

    def __enter__(self):
        self.lock.__enter__()
        return self

    def __exit__(self, *a):
        self.lock.__exit__()

    def notify(self, n=1):
        for _ in range(n):
            if self.waiters:
                i = SCHED[0].choose(len(self.waiters)) if SCHED[0] is not None else 0
                self.waiters.pop(i)['woken'] = True

    def notify_all(self):
        self.notify(len(self.waiters))


class MEvent:
    def __init__(self):
        self.flag = False

    def set(self):
        self.flag = True

    def is_set(self):
        return self.flag

    def wait(self, timeout=None):
        if not self.flag:
            raise RuntimeError('untransformed code would block on an event')
        return True


class MQueue:
    def __init__(self):
        self.items = []

    def put(self, x):
        self.items.append(x)

    def get(self):
        if not self.items:
            raise RuntimeError('untransformed code would block on an empty queue')
        return self.items.pop(0)


def co_acquire(lock):
    while lock.owner is not None:
        if lock.owner == CUR[0]:
            raise SelfDeadlock('re-acquisition of a non-reentrant lock by its owner')
        yield ('blocked', lock)
    lock.owner = CUR[0]


def co_wait(cond):
    me = {'woken': False, 'tid': CUR[0]}
    cond.waiters.append(me)
    cond.owner = None
    yield ('pt', 'released the lock to wait')     # a state change: threads blocked on the lock can go on
    while not me['woken']:
        yield ('blocked', cond)
    yield from co_acquire(cond)


def co_get(q):
    while not q.items:
        yield ('blocked', q)
    return q.items.pop(0)


class CoFuture:
    """future of a model task; .result() inside co-versioned code is a blocking point"""

    def __init__(self):
        self._done = False
        self._res = None
        self._exc = None

    def done(self):
        return self._done

    def finish(self, res=None, exc=None):
        self._res, self._exc, self._done = res, exc, True

    def result(self, timeout=None):
        if not self._done:
            raise RuntimeError('untransformed code would block on a future')
        if self._exc is not None:
            raise self._exc
        return self._res


def co_result(f):
    inner = getattr(f, '_future', None)
    if isinstance(inner, CoFuture):
        f = inner                  # s3transfer's ExecutorFuture around a model future
    if not isinstance(f, CoFuture):
        return f.result()
    while not f._done:
        yield ('blocked', f)
    if f._exc is not None:
        raise f._exc
    return f._res


def co_call(obj, name, *a, **k):
    """call obj.<name>: its generator co-version when the object's class has one, else the plain method (atomic)"""
    f = getattr(obj, '_co_' + name, None)
    if f is not None:
        # a co-version generated for a base class must not shadow a plain override in a subclass
        mro = type(obj).__mro__ if not isinstance(obj, super) else ()
        for kls in mro:
            if ('_co_' + name) in kls.__dict__:
                break
            if name in kls.__dict__:
                f = None
                break
    if f is None:
        return getattr(obj, name)(*a, **k)
        yield   # noqa  (makes this a generator function)
    r = yield from f(*a, **k)
    return r


def co_event_wait(ev):
    while not ev.flag:
        yield ('blocked', ev)
    return True


def _is_lock_expr(node):
    return isinstance(node, ast.Attribute) and (node.attr.endswith('lock') or node.attr.endswith('_condition'))


class CoTransformer(ast.NodeTransformer):
    def __init__(self, co_names, shared=None, dispatch=(), clsname=None):
        self.co_names = co_names
        self.in_lock = 0
        self.shared = shared      # tokens naming shared state; None = every statement is a switch point
        self.dispatch = set(dispatch)   # method names dispatched through co_call on ANY receiver
        self.clsname = clsname

    def _touches_shared(self, s):
        """partial-order reduction: a statement that only touches thread-local state commutes with everything"""
        if self.shared is None:
            return True
        if isinstance(s, (ast.If, ast.While)):
            txt = ast.unparse(s.test)
        elif isinstance(s, ast.For):
            txt = ast.unparse(s.iter)
        elif isinstance(s, (ast.Try, ast.With)):
            return False if isinstance(s, ast.Try) else True
        else:
            txt = ast.unparse(s)
        if any(('self.' + n + '(') in txt for n in self.co_names):
            return False       # the callee's own statements are switch points
        return any(tok in txt for tok in self.shared)

    def visit_FunctionDef(self, node):
        node.name = '_co_' + node.name
        node.body = self._block(node.body)
        node.body.insert(0, ast.If(ast.Constant(False), [ast.Expr(ast.Yield(ast.Constant(None)))], []))
        node.decorator_list = []
        return node

    @staticmethod
    def _is_call_on_lock(s, name):
        return (isinstance(s, ast.Expr) and isinstance(s.value, ast.Call) and isinstance(s.value.func, ast.Attribute)
                and s.value.func.attr == name and _is_lock_expr(s.value.func.value))

    def _block(self, stmts):
        out = []
        prev_acquire = False
        for s in stmts:
            # `lock.acquire()` followed by `try: ... finally: lock.release()` is a critical section: no switch points
            # inside (another thread could only block on the lock anyway); waits inside still yield
            if prev_acquire and isinstance(s, ast.Try) and any(self._is_call_on_lock(f, 'release') for f in s.finalbody):
                self.in_lock += 1
                s.body = self._block(s.body)
                for h in s.handlers:
                    h.body = self._block(h.body)
                s.finalbody = self._block(s.finalbody)
                self.in_lock -= 1
                out.append(self.generic_visit(s))
                prev_acquire = False
                continue
            prev_acquire = self._is_call_on_lock(s, 'acquire')
            if isinstance(s, ast.Expr) and isinstance(s.value, ast.Constant) and isinstance(s.value.value, str):
                continue
            if self.in_lock == 0 and self._touches_shared(s):
                out.append(ast.Expr(ast.Yield(ast.Constant(('pt', getattr(s, 'lineno', 0))))))
            out.append(self.visit_stmt(s))
        return out or [ast.Pass()]

    def visit_stmt(self, s):
        if isinstance(s, ast.With) and len(s.items) == 1 and _is_lock_expr(s.items[0].context_expr):
            lock = s.items[0].context_expr
            self.in_lock += 1
            body = self._block(s.body)
            self.in_lock -= 1
            acq = ast.Expr(ast.YieldFrom(ast.Call(ast.Name('co_acquire', ast.Load()), [lock], [])))
            rel = ast.Assign([ast.Attribute(lock, 'owner', ast.Store())], ast.Constant(None))
            return ast.If(ast.Constant(True), [acq, ast.Try(body, [], [], [rel])], [])
        for field in ('body', 'orelse', 'finalbody'):
            if hasattr(s, field) and isinstance(getattr(s, field), list) and getattr(s, field) \
                    and isinstance(getattr(s, field)[0], ast.stmt):
                setattr(s, field, self._block(getattr(s, field)))
        if isinstance(s, ast.Try):
            for h in s.handlers:
                h.body = self._block(h.body)
        return self.generic_visit(s)

    def visit_Call(self, node):
        self.generic_visit(node)
        f = node.func
        if isinstance(f, ast.Attribute):
            if isinstance(f.value, ast.Name) and f.value.id == 'self' and f.attr in self.co_names:
                call = ast.Call(ast.Name('co_call', ast.Load()), [f.value, ast.Constant(f.attr)] + node.args,
                                node.keywords)
                return ast.YieldFrom(call)
            if f.attr in self.dispatch and not (f.attr in ('acquire', 'release', 'wait') and _is_lock_expr(f.value)):
                recv = f.value
                if isinstance(recv, ast.Call) and isinstance(recv.func, ast.Name) and recv.func.id == 'super' \
                        and not recv.args and self.clsname:
                    recv = ast.Call(ast.Name('super', ast.Load()),
                                    [ast.Name(self.clsname, ast.Load()), ast.Name('self', ast.Load())], [])
                call = ast.Call(ast.Name('co_call', ast.Load()), [recv, ast.Constant(f.attr)] + node.args,
                                node.keywords)
                return ast.YieldFrom(call)
            if f.attr == 'acquire' and _is_lock_expr(f.value) and not node.args:
                return ast.YieldFrom(ast.Call(ast.Name('co_acquire', ast.Load()), [f.value], []))
            if f.attr == 'wait' and _is_lock_expr(f.value):
                return ast.YieldFrom(ast.Call(ast.Name('co_wait', ast.Load()), [f.value], []))
            if f.attr == 'wait' and isinstance(f.value, ast.Attribute) and f.value.attr.endswith('event'):
                return ast.YieldFrom(ast.Call(ast.Name('co_event_wait', ast.Load()), [f.value], []))
            if f.attr == 'result' and isinstance(f.value, ast.Name) and not node.args and not node.keywords:
                return ast.YieldFrom(ast.Call(ast.Name('co_result', ast.Load()), [f.value], []))
            if f.attr == 'get' and isinstance(f.value, ast.Attribute) and f.value.attr.endswith('queue') \
                    and not node.args:
                return ast.YieldFrom(ast.Call(ast.Name('co_get', ast.Load()), [f.value], []))
        return node


def make_co(cls, names, module, shared=None, dispatch=()):
    """install _co_<name> generator versions of the listed methods on cls; returns the names that were found"""
    ns = dict(vars(module))
    ns.update(co_acquire=co_acquire, co_wait=co_wait, co_get=co_get, co_event_wait=co_event_wait, co_result=co_result, co_call=co_call)
    done = []
    for name in names:
        fn = cls.__dict__.get(name)
        if fn is None:
            for base in cls.__mro__[1:]:
                if name in base.__dict__:
                    fn = base.__dict__[name]
                    break
        if fn is None:
            continue
        src = textwrap.dedent(inspect.getsource(fn))
        tree = ast.parse(src)
        t = CoTransformer(set(names), shared, dispatch, cls.__name__)
        tree.body[0] = t.visit(tree.body[0])
        ast.fix_missing_locations(tree)
        exec(compile(tree, '<co %s.%s>' % (cls.__name__, name), 'exec'), ns)
        setattr(cls, '_co_' + name, ns['_co_' + name])
        done.append(name)
    return done


SCHED = [None]


class Scheduler:
    """advances the generators; `choices` are symbolic integers; returns a verdict string or None"""

    def __init__(self, choices=(), max_steps=400, preempt=(), prio=None):
        """choices: consumed whenever several threads are enabled and the current one cannot simply go on;
        preempt: [(step, thread)] - at scheduling step `step` control is handed to `thread` (if it can run):
        preemption-bounded exploration with symbolic positions and targets"""
        self.preempt = list(preempt)
        self.prio = prio       # optional symbolic priorities, one per thread: the enabled thread with the highest
        #                        priority runs (ties: lowest index) - priority schedules reach orders such as
        #                        "thread 2 completely before thread 0" with no per-step choice
        self.choices = list(choices)
        self.k = 0
        self.max_steps = max_steps
        self.trace = []
        self.tracing = False
        self.pin = None
        SCHED[0] = self

    def choose(self, n):
        if n <= 1 or self.k >= len(self.choices):
            return 0
        c = self.choices[self.k]
        self.k += 1
        for i in range(n - 1):
            if c == i:
                return i
        return n - 1

    def run(self, gens, on_step=None, daemons=()):
        alive = [True] * len(gens)
        blocked = [False] * len(gens)
        born = [0] * len(gens)        # scheduler step at which a thread came into existence
        cur = None
        steps = 0
        while any(a for j, a in enumerate(alive) if j not in daemons) or len(gens) > len(alive) or \
                any(alive[j] and not blocked[j] for j in daemons if j < len(alive)):
            while len(alive) < len(gens):      # threads spawned while running (executor model)
                alive.append(True)
                blocked.append(False)
                born.append(steps)
            steps += 1
            if steps > self.max_steps:
                return 'livelock: step budget exhausted'
            cand = [i for i in range(len(gens)) if alive[i] and not blocked[i]]
            if not cand:
                return 'deadlock: every live thread is blocked'
            forced = None
            for pi in range(len(self.preempt)):
                ps, pt = self.preempt[pi]
                # (ps, pt): hand control to thread pt when it has existed for ps scheduling steps (for the initial
                # threads that is the absolute step number)
                for j in cand:
                    if pt == j and ps == steps - born[j]:
                        forced = j
            if self.pin is not None and self.pin not in cand:
                self.pin = None       # the preempted-to thread blocked or ended
            if forced is not None:
                i = forced
                self.pin = forced
            elif self.k < len(self.choices) and len(cand) > 1:
                i = cand[self.choose(len(cand))]
            elif self.pin is not None:
                i = self.pin          # a preempted-to thread keeps running until it blocks or ends
            elif self.prio is not None:
                i = cand[0]
                for j in cand[1:]:
                    if self.prio[j] > self.prio[i]:
                        i = j
            elif cur in cand:
                i = cur
            else:
                i = cand[0]
            cur = i
            CUR[0] = i + 1
            try:
                r = next(gens[i])
            except StopIteration:
                alive[i] = False
                r = None
                for j in range(len(blocked)):
                    blocked[j] = False
            except SelfDeadlock as e:
                CUR[0] = 0
                return 'self-deadlock: ' + str(e)
            CUR[0] = 0
            if self.tracing:
                self.trace.append((steps, i, r[0] if isinstance(r, tuple) and r else r, r[1] if isinstance(r, tuple) and len(r) > 1 and not isinstance(r[1], object.__class__) else None))
            if isinstance(r, tuple) and r and r[0] == 'blocked':
                blocked[i] = True
            else:
                for j in range(len(blocked)):
                    blocked[j] = False
            if on_step is not None:
                v = on_step()
                if v:
                    return v
        return None
