"""path counters written by the generated obligation wrappers (one line per completed path)"""
import os


def begin(tag):
    try:
        from vlib import symreg
        symreg.reset()
    except Exception:
        pass


def cls(reason):
    return reason.split('|')[0].strip()


def tick(tag, reason):
    try:
        fd = os.open(tag, os.O_WRONLY | os.O_APPEND | os.O_CREAT, 0o644)
        os.write(fd, ('T1 %s\n' % (reason[:120],)).encode() if reason else b'T0\n')
        os.close(fd)
    except Exception:
        pass
