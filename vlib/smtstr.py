"""Python (AST) -> SMT-LIB 2 (strings + linear integers) for straight-line string functions that CrossHair cannot
confirm (slicing / concatenation of a symbolic str of a few hundred characters does not finish in its sequence
model, see DESIGN 7.2).  The function's source is read from the tree under analysis on every run.

Supported: assignments to names, return; str/int constants; names; `+` (concatenation or integer addition, by
inferred type), `-` on integers; `len(s)`; slices `s[:k]`, `s[k:]`, `s[a:b]` with Python's semantics for negative
bounds; attribute constants resolved by a caller-supplied table (`os.extsep`, `self._MAX_FILENAME_LEN`, ...);
calls to functions axiomatised by the caller (`os.path.basename`, ...); the call that stands for the random
choice (a fresh string constant per run); ANY OTHER call / f-string is an uninterpreted function of its (string)
arguments - deterministic by construction, so "two runs differ" properties can still be refuted and then confirmed
by concrete replay.  Anything else raises Untranslatable (the obligation is reported inconclusive, never alarmed)."""
import ast
import inspect
import textwrap


class Untranslatable(Exception):
    pass


PRELUDE = '''
(define-fun py_upto ((s String) (k Int)) String
  (ite (>= k 0) (str.substr s 0 k)
       (ite (>= (+ (str.len s) k) 0) (str.substr s 0 (+ (str.len s) k)) "")))
(define-fun py_from ((s String) (k Int)) String
  (ite (>= k 0) (str.substr s k (str.len s))
       (ite (>= (+ (str.len s) k) 0) (str.substr s (+ (str.len s) k) (str.len s)) s)))
(define-fun py_norm ((s String) (k Int)) Int
  (ite (>= k 0) (ite (<= k (str.len s)) k (str.len s)) (ite (>= (+ (str.len s) k) 0) (+ (str.len s) k) 0)))
(define-fun py_slice ((s String) (a Int) (b Int)) String
  (ite (>= (py_norm s b) (py_norm s a)) (str.substr s (py_norm s a) (- (py_norm s b) (py_norm s a))) ""))
'''


def _dotted(node):
    parts = []
    while isinstance(node, ast.Attribute):
        parts.append(node.attr)
        node = node.value
    if isinstance(node, ast.Name):
        parts.append(node.id)
        return '.'.join(reversed(parts))
    return None


def _lit(s):
    out = []
    for ch in s:
        if ch == '"':
            out.append('""')
        elif 32 <= ord(ch) < 127 and ch != '\\':
            out.append(ch)
        else:
            out.append('\\u{%x}' % ord(ch))
    return '"' + ''.join(out) + '"'


class Translator:
    """one symbolic run of the function: `run` is a suffix that keeps the runs' local symbols apart"""

    def __init__(self, consts, axioms, fresh, run=''):
        self.consts = consts      # dotted name -> python constant (str / int)
        self.axioms = axioms      # dotted name -> (smt function name, result sort, arg sorts)
        self.fresh = fresh        # dotted name of the call that makes the random choice -> smt constant name (per run)
        self.run = run
        self.env = {}             # python local -> (smt term, sort)
        self.ufs = {}             # uninterpreted functions used: name -> (arg sorts, sort)
        self.uf_calls = []

    def expr(self, n):
        if isinstance(n, ast.Constant):
            if isinstance(n.value, bool):
                raise Untranslatable('bool constant')
            if isinstance(n.value, str):
                return _lit(n.value), 'String'
            if isinstance(n.value, int):
                return (str(n.value) if n.value >= 0 else '(- %d)' % -n.value), 'Int'
            raise Untranslatable('constant %r' % (n.value,))
        if isinstance(n, ast.Name):
            if n.id in self.env:
                return self.env[n.id]
            if n.id in self.consts:
                return self.expr(ast.Constant(self.consts[n.id]))
            raise Untranslatable('unknown name ' + n.id)
        if isinstance(n, ast.Attribute):
            d = _dotted(n)
            if d in self.consts:
                return self.expr(ast.Constant(self.consts[d]))
            raise Untranslatable('attribute ' + str(d))
        if isinstance(n, ast.BinOp):
            a, sa = self.expr(n.left)
            b, sb = self.expr(n.right)
            if isinstance(n.op, ast.Add) and sa == sb == 'String':
                return '(str.++ %s %s)' % (a, b), 'String'
            if isinstance(n.op, ast.Add) and sa == sb == 'Int':
                return '(+ %s %s)' % (a, b), 'Int'
            if isinstance(n.op, ast.Sub) and sa == sb == 'Int':
                return '(- %s %s)' % (a, b), 'Int'
            if 'Any' in (sa, sb) or (sa, sb) == ('Int', 'Int'):
                # an operation this translator does not interpret: SOME deterministic function of the operands
                return self._uf('binop_' + type(n.op).__name__, [(a, sa), (b, sb)], 'Int' if (sa, sb) == ('Int', 'Int') else 'Any')
            raise Untranslatable('operator %s on %s/%s' % (type(n.op).__name__, sa, sb))
        if isinstance(n, ast.Subscript):
            s, ss = self.expr(n.value)
            if ss != 'String' or not isinstance(n.slice, ast.Slice) or n.slice.step is not None:
                raise Untranslatable('subscript')
            lo, hi = n.slice.lower, n.slice.upper
            if lo is None and hi is None:
                return s, 'String'
            if lo is None:
                k, sk = self.expr(hi)
                if sk != 'Int':
                    raise Untranslatable('slice bound')
                return '(py_upto %s %s)' % (s, k), 'String'
            if hi is None:
                k, sk = self.expr(lo)
                if sk != 'Int':
                    raise Untranslatable('slice bound')
                return '(py_from %s %s)' % (s, k), 'String'
            a, sa = self.expr(lo)
            b, sb = self.expr(hi)
            if sa != 'Int' or sb != 'Int':
                raise Untranslatable('slice bound')
            return '(py_slice %s %s %s)' % (s, a, b), 'String'
        if isinstance(n, ast.Call):
            if n.keywords:
                raise Untranslatable('keyword arguments')
            d = _dotted(n.func)
            if d is None and isinstance(n.func, ast.Attribute):
                # method call on an expression: an uninterpreted function of the receiver and the arguments
                recv = self.expr(n.func.value)
                return self._uf('method_' + n.func.attr, [recv] + [self.expr(a) for a in n.args], 'Any')
            if d == 'len' and len(n.args) == 1:
                a, sa = self.expr(n.args[0])
                if sa != 'String':
                    raise Untranslatable('len of non-string')
                return '(str.len %s)' % a, 'Int'
            if d in self.fresh and not n.args:
                return self.fresh[d] + self.run, 'String'
            args = [self.expr(a) for a in n.args]
            if d in self.axioms:
                fn, sort, asorts = self.axioms[d]
                if [s for _, s in args] != list(asorts):
                    raise Untranslatable('argument sorts of ' + d)
                return '(%s %s)' % (fn, ' '.join(a for a, _ in args)), sort
            return self._uf(d or 'call', args, 'Any')
        if isinstance(n, ast.JoinedStr):
            args = []
            for v in n.values:
                if isinstance(v, ast.Constant):
                    continue
                if isinstance(v, ast.FormattedValue):
                    args.append(self.expr(v.value))
                else:
                    raise Untranslatable('f-string part')
            return self._uf('fstring_l%d_c%d' % (n.lineno, n.col_offset), args, 'String')
        raise Untranslatable(type(n).__name__)

    def _uf(self, name, args, sort):
        """an unknown call / operation is SOME deterministic function of its arguments (result of an opaque sort
        `Any` unless the construct itself fixes it, e.g. an f-string is a string)"""
        sorts = [s for _, s in args]
        fn = 'uf_' + ''.join(c if c.isalnum() else '_' for c in name) + '_' + ''.join(x[0] for x in sorts + [sort])
        if not args:
            raise Untranslatable('unknown call without arguments: ' + name)
        self.ufs[fn] = (sorts, sort)
        self.uf_calls.append(name)
        return '(%s %s)' % (fn, ' '.join(a for a, _ in args)), sort

    def body(self, fdef, args):
        """args: python parameter name -> (smt term, sort); returns the returned (term, sort)"""
        self.env = dict(args)
        for st in fdef.body:
            if isinstance(st, ast.Expr) and isinstance(st.value, ast.Constant) and isinstance(st.value.value, str):
                continue
            if isinstance(st, ast.Assign) and len(st.targets) == 1 and isinstance(st.targets[0], ast.Name):
                self.env[st.targets[0].id] = self.expr(st.value)
                continue
            if isinstance(st, ast.Return) and st.value is not None:
                return self.expr(st.value)
            raise Untranslatable('statement ' + type(st).__name__)
        raise Untranslatable('no return')


def function_ast(fn):
    src = textwrap.dedent(inspect.getsource(fn))
    mod = ast.parse(src)
    fdef = mod.body[0]
    if not isinstance(fdef, ast.FunctionDef):
        raise Untranslatable('not a plain function')
    return fdef, src
