"""table behind MANIFEST.json (see bin/mkmanifest.py)"""
_T = 'bounded symbolic execution of the real code (CrossHair + z3), solver verdict per path tree'
_CO = ' + statement-level interleavings of source-generated co-routines with symbolic preemptions (engine CO)'
_NOTE = ('trusted: CPython, CrossHair 0.0.110 models of int/list/dict, z3 5.1, shims S1/S2 (lemmas L1/L2), the fakes '
         'in /verif/vlib; bounds per obligation are in the evidence file')
CHECKS = {
    'C01': dict(
        text='Bounded symbolic execution of the real upload/copy code path end to end (<= 3 parts; size, threshold, '
             'chunk size, stream offset, body read sizes symbolic) plus unbounded inductive steps for ReadFileChunk and '
             'the non-seekable read kernel; legacy uploader with a symbolic completion order of its pool tasks; every '
             'input inside the bounds is decided by z3.',
        note=_NOTE + '; A3 botocore body protocol; identity-content data', technique=_T),
    'C02': dict(
        text='Bounded symbolic execution of the real download path end to end for all four destination kinds (<= 3 '
             'parts, <= 3 chunks per attempt, <= 2 retryable stream faults at symbolic byte positions, symbolic short '
             'reads) and of GetObjectTask alone.',
        note=_NOTE + '; identity-content data; legacy ranged download over a lazy pool model (task completion order '
             'symbolic, no statement-level overlap); process-pool facade needs real processes and is outside', technique=_T + _CO),
    'C03': dict(
        text='Every transfer type/mode with ONE fault at a symbolic index over all environment calls and symbolic phase '
             '(fault enumeration done by the solver, not by a loop): never success after a delivered fault, raised '
             'exception is an injected one, success implies the complete effect; the exception TYPE of the fault '
             'symbolic as well (a non-stream failure of a retryable type is still a failure); retry budget with '
             'symbolic fault positions.  Bound: single request and 2-part shapes, serial schedule; fault pairs in thorough tier.',
        note=_NOTE + '; faults land only on environment calls', technique=_T + _CO),
    'C04': dict(
        text='Real manager over model executor + model threading (owner-tracking locks: self-deadlock is definite; '
             'blocking primitives pump other work: nothing runnable = definite deadlock).  Quiescence completion with '
             'limits symbolic in 1..3, one symbolic fault, symbolic nested-start choices; re-entrant subscriber '
             'callbacks on every announce path; the submission wait loop.  Bounded to serial and nested (LIFO) '
             'schedules; arbitrary preemptive interleavings are outside this technique.',
        note=_NOTE + '; model threading primitives in /verif/vlib/ns.py', technique=_T + ' over nested schedules' + _CO),
    'C05': dict(
        text='Multipart upload/copy life cycle against a fake multipart table under one symbolic fault (before/after '
             'effect), incl. the legacy uploader (pool tasks in symbolic order); cancellation inside a symbolic '
             'environment call; life cycle and in-flight requests judged at the instant the done event is set as well '
             'as at quiescence.',
        note=_NOTE + '; abort-vs-in-flight ordering only for serial/nested schedules', technique=_T + _CO),
    'C06': dict(
        text='Crash-point invariant evaluated after every FS operation of an in-memory file system, one symbolic fault, '
             'destination pre-existing or not; TransferManager and legacy S3Transfer (single + ranged, the ranged '
             'path with a symbolic order of its pool tasks); fault pairs; no temporary file at the done instant; the '
             'temporary name itself (different path, same directory, accepted length) for every destination name.',
        note=_NOTE + '; os.rename atomicity trusted; real OS not involved; cvc5 1.0.3 string solver trusted for C06.5',
        technique=_T + '; OSUtils.get_temp_filename translated from its source into SMT-LIB strings and decided by '
        'cvc5 (every destination name of 1..255 characters)'),
    'C07': dict(
        text='Cancellation injected at a symbolic scheduling point (before the k-th task start for the five entry '
             'points; inside the n-th environment call for future.cancel()), symbolic nested-start choices, real '
             'manager over model executors; oracle on exception type/message, no request for not-started transfers, '
             'cleanups, success implies complete effect.',
        note=_NOTE + '; nested (LIFO) schedules only', technique=_T + ' over nested schedules' + _CO),
    'C08': dict(
        text='Recording subscribers with a logical clock in every outcome of the single-fault family; provide_size.',
        note=_NOTE + '; serial schedule', technique=_T + _CO),
    'C09': dict(
        text='Unbounded inductive step on ReadFileChunk + AggregatedProgressCallback (any number of rewinds), plus '
             'bounded e2e sums for uploads/downloads/copies with symbolic read sizes, re-sends and stream faults.',
        note=_NOTE + '; A3 botocore body protocol assumed', technique=_T),
    'C10': dict(
        text='Wiring with the limits as unbounded symbolic integers; BoundedExecutor permit discipline from an arbitrary '
             'number of free permits; stage attribution, in-flight request count and per-stage occupancy in '
             'nested-schedule runs with limits symbolic in 1..3.',
        note=_NOTE + '; nested (LIFO) schedules only; stdlib ThreadPoolExecutor trusted to honour max_workers',
        technique=_T + ' over nested schedules' + _CO),
    'C11': dict(
        text='Live stream-upload buffers (bytes read minus bytes of finished requests), the non-seekable download '
             'window (highest requested vs lowest unfinished part) and pending writes, in laziest-consumer and nested '
             'schedules with the limits symbolic in 1..3; tag placement.',
        note=_NOTE + '; A4 (BufferedReader contract) for the per-buffer size clause; nested schedules only',
        technique=_T + ' over nested schedules' + _CO),
    'C12': dict(
        text='Inductive step on the real SlidingWindowSemaphore from an arbitrary invariant-satisfying state (unbounded '
             'counters) against a reference model, bounded API histories, TaskSemaphore conservation, quiescence of '
             'manager semaphores after e2e transfers.',
        note=_NOTE + '; representation invariant stated in harness/c12.py', technique=_T + _CO),
    'C15': dict(
        text='Exhaustive over the finite argument-name space through a symbolic index, oracle = installed botocore S3 '
             'model; all manager front ends and the legacy S3Transfer, single and multipart/ranged, with all subsets '
             'of the interacting checksum arguments.',
        note=_NOTE + '; arbitrary unknown strings are represented by one fresh name', technique=_T),
    'C16': dict(
        text='The real DeferQueue driven with delivery histories exactly as quantified (parts, attempts cut anywhere, '
             'interleavings) with unbounded symbolic lengths, plus a one-step obligation from an arbitrary queue state, '
             'both output-manager paths (queued and immediate writes) and the end-to-end stream download under '
             'C02\'s fault sequences.',
        note=_NOTE, technique=_T + _CO),
    'C17': dict(
        text='Reference state machine vs the real TransferCoordinator/TransferFuture: one step from every consistent '
             'state (symbolic state and operation index) and all operation sequences of length 4 (thorough 5).',
        note=_NOTE, technique=_T + _CO),
    'C13': dict(
        text='Integer accounting of BandwidthLimitedStream against a stub bucket; the real ConsumptionScheduler / '
             'LeakyBucket / BandwidthRateTracker over z3 reals (shim S3): wait accumulation, abandoned waiters, '
             'one-step admission rule and the never-delayed-below-the-limit induction step from an arbitrary state.',
        note=_NOTE + '; reals instead of binary64 (A2); the windowed 1.25 bound for unbounded histories is not proved',
        technique=_T + ' (nonlinear real arithmetic + _CO)'),
    'C18': dict(
        text='Three transfers of different types on one real manager over model executors; which one fails (symbolic '
             'fault index) or is cancelled (symbolic point) is decided by the solver; isolation oracle per transfer, '
             'then shutdown barrier (no event after return, executors closed) or a fresh transfer.',
        note=_NOTE + '; nested (LIFO) schedules only', technique=_T + ' over nested schedules; distinct temporary '
        'names of concurrent downloads by an SMT-LIB (strings) translation of get_temp_filename decided by cvc5'),
    'C14': dict(
        text='Planning kernels confirmed over all paths at real scale (size <= 5 TiB, chunk <= 8 GiB, symbolic part '
             'index): every input in the stated domain is covered by the solver, not sampled. Bounded claim: the '
             'domain above; float rounding closed by lemma L1 (scaled widths + linear core at p=53).',
        note=_NOTE, technique=_T),
}
CHECKS['C19'] = dict(
    text='The real submitter / worker run loops and TransferMonitor in one process, turned into generator co-versions '
         'from the source and interleaved at switch points on shared state by a preemption-bounded scheduler with '
         'symbolic preemption position/target; symbolic sizes (1-3 jobs), failing GetObject / file-system operation at '
         'a symbolic index, cancelling user; oracle evaluated at the moment is_done() flips.',
    note=_NOTE + '; real processes, pickling and manager proxies are outside (facade order checked with stubs)',
    technique=_T + ' over generated co-routines (bounded preemptions)')
CHECKS['C20'] = dict(
    text='The real s3transfer.crt Python layer against a stub awscrt: sequences of 3 submissions with '
         'symbolic kinds, outcomes and completion order, 2 permits so that submitters block; permit conservation, '
         'callback order, temp-file handling, shutdown barrier.',
    note=_NOTE + '; stub awscrt stands for the real CRT client (assumes it finishes the request future before on_done)',
    technique=_T)
ALL = ['C%02d' % i for i in range(1, 21)]
NA = [dict(property_id=p, reason='check not built yet in this round (planned in DESIGN.md section 3); no claim made')
      for p in ALL if p not in CHECKS]
NOTES = ('Solver-based checking of the real s3transfer code; see DESIGN.md. A counterexample that does not reproduce concretely '
         'is a harness error: printed and recorded as such, never a violation (exit 3 only with VERIF_STRICT=1).')
