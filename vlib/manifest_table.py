"""table behind MANIFEST.json (see bin/mkmanifest.py)"""
_T = 'bounded symbolic execution of the real code (CrossHair + z3), solver verdict per path tree'
_NOTE = ('trusted: CPython, CrossHair 0.0.110 models of int/list/dict, z3 5.1, shims S1/S2 (lemmas L1/L2), the fakes '
         'in /verif/vlib; bounds per obligation are in the evidence file')
CHECKS = {
    'C14': dict(
        text='Planning kernels confirmed over all paths at real scale (size <= 5 TiB, chunk <= 8 GiB, symbolic part '
             'index): every input in the stated domain is covered by the solver, not sampled. Bounded claim: the '
             'domain above; float rounding closed by lemma L1 (scaled widths + linear core at p=53).',
        note=_NOTE, technique=_T),
}
ALL = ['C%02d' % i for i in range(1, 21)]
NA = [dict(property_id=p, reason='check not built yet in this round (planned in DESIGN.md section 3); no claim made')
      for p in ALL if p not in CHECKS]
NOTES = ('Solver-based checking of the real s3transfer code; see DESIGN.md. Exit 3 of a check = harness error '
         '(counterexample that does not reproduce concretely), never a violation.')
