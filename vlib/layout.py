"""Layout probe (DESIGN 2.2): the obligations reach into private attributes of s3transfer objects (to install an
arbitrary pre-state, to read permits, to swap locks for model locks).  A refactoring that renames such an attribute
must not turn into an alarm: every group of private names is probed on freshly constructed objects of the tree under
analysis, and obligations that depend on a missing group are reported as `skipped: layout`.

Run as `python -m vlib.layout` it prints the missing groups as JSON (the runner calls it in a subprocess so that it
sees the same source tree as the analysis)."""
import json


def _has(obj, names):
    return all(hasattr(obj, n) for n in names)


def groups():
    out = {}

    def group(name, fn):
        try:
            out[name] = bool(fn())
        except Exception:  # noqa
            out[name] = False

    from vlib import fakes as F

    def rfc():
        from s3transfer.utils import ReadFileChunk
        return _has(ReadFileChunk(F.FakeFile(1), 1, 1), ['_amount_read', '_size', '_start_byte', '_fileobj',
                                                         '_callbacks_enabled'])
    group('rfc', rfc)

    def nonseek():
        from s3transfer.upload import UploadNonSeekableInputManager
        return _has(UploadNonSeekableInputManager(None, None), ['_initial_data'])
    group('nonseek', nonseek)

    def agg():
        from s3transfer.upload import AggregatedProgressCallback
        return _has(AggregatedProgressCallback([]), ['_bytes_seen', '_threshold'])
    group('agg', agg)

    def sws():
        from s3transfer.utils import SlidingWindowSemaphore
        return _has(SlidingWindowSemaphore(1), ['_count', '_tag_sequences', '_lowest_sequence', '_pending_release',
                                                '_lock', '_condition'])
    group('sws', sws)

    def tasksem():
        from s3transfer.utils import TaskSemaphore
        return _has(TaskSemaphore(1), ['_semaphore']) and _has(TaskSemaphore(1)._semaphore, ['_value'])
    group('tasksem', tasksem)

    def bex():
        from s3transfer.futures import BoundedExecutor, NonThreadedExecutor
        return _has(BoundedExecutor(1, 1, {}, NonThreadedExecutor), ['_semaphore', '_executor', '_tag_semaphores'])
    group('bex', bex)

    def cci():
        from s3transfer.utils import CountCallbackInvoker
        return _has(CountCallbackInvoker(lambda: None), ['_lock', '_count', '_is_finalized'])
    group('cci', cci)

    def coord():
        from s3transfer.futures import TransferCoordinator, TransferFuture
        c = TransferCoordinator()
        return _has(c, ['_status', '_exception', '_result', '_done_event', '_lock', '_done_callbacks_lock',
                        '_failure_cleanups_lock', '_associated_futures_lock', '_done_callbacks', '_failure_cleanups',
                        '_associated_futures']) and _has(TransferFuture(None, c), ['_coordinator'])
    group('coord', coord)

    def manager():
        from s3transfer.futures import NonThreadedExecutor
        from s3transfer.manager import TransferManager
        m = TransferManager(F.FakeS3(F.Env()), executor_cls=NonThreadedExecutor)
        return _has(m, ['_request_executor', '_submission_executor', '_io_executor', '_coordinator_controller',
                        '_bandwidth_limiter', '_client', '_config', '_osutil'])
    group('manager', manager)

    def defer():
        from s3transfer.download import DeferQueue, DownloadNonSeekableOutputManager
        ok = _has(DeferQueue(), ['_writes', '_pending_offsets', '_next_offset'])
        return ok and _has(DownloadNonSeekableOutputManager(None, None, None), ['_defer_queue', '_io_submit_lock'])
    group('defer', defer)

    def task():
        from s3transfer.futures import TransferCoordinator
        from s3transfer.tasks import Task
        return _has(Task(TransferCoordinator()), ['_transfer_coordinator', '_main_kwargs', '_pending_main_kwargs',
                                                  '_done_callbacks', '_is_final'])
    group('task', task)

    def bw():
        from s3transfer.bandwidth import (BandwidthLimitedStream, BandwidthLimiter, BandwidthRateTracker,
                                          ConsumptionScheduler, LeakyBucket)
        ok = _has(BandwidthRateTracker(), ['_last_time', '_current_rate', '_alpha'])
        ok = ok and _has(ConsumptionScheduler(), ['_total_wait', '_tokens_to_scheduled_consumption'])
        b = LeakyBucket(1)
        ok = ok and _has(b, ['_lock', '_rate_tracker', '_consumption_scheduler', '_time_utils', '_max_rate'])
        ok = ok and _has(BandwidthLimitedStream(None, b, None), ['_bytes_seen', '_request_token', '_bytes_threshold'])
        return ok and _has(BandwidthLimiter(b), ['_leaky_bucket', '_time_utils'])
    group('bw', bw)

    def pp():
        import s3transfer.processpool as PP
        ok = _has(PP.TransferMonitor(), ['_transfer_states'])
        ok = ok and _has(PP.TransferState(), ['_jobs_to_complete', '_done_event', '_exception'])
        return ok and all(hasattr(PP.GetObjectWorker, n) for n in ('_do_run', '_run_get_object_job',
                                                                   '_finalize_download', '_do_file_rename'))
    group('pp', pp)

    def legacy():
        import s3transfer as S
        return all(hasattr(S, n) for n in ('MultipartUploader', 'MultipartDownloader', 'S3Transfer', 'ReadFileChunk',
                                           'random_file_extension', 'OSUtils'))
    group('legacy', legacy)
    return out


def missing():
    return sorted(k for k, v in groups().items() if not v)


if __name__ == '__main__':
    print('LAYOUT-MISSING ' + json.dumps(missing()))
