"""Registry of symbolic integers that were formatted into strings (shim S1), and the decoder the
fakes use to get them back.  Pure Python, importable with or without CrossHair: in a concrete replay
the strings contain real digits and the same functions parse those."""
import re

REG = []
_PH = re.compile("⟦(\\d+)⟧")


def reset():
    del REG[:]


def placeholder(obj):
    REG.append(obj)
    return "⟦%d⟧" % (len(REG) - 1)


def _tokens(body):
    parts = _PH.split(body)
    toks = []
    for i, p in enumerate(parts):
        if i % 2 == 1:
            toks.append(REG[int(p)])
        else:
            for piece in re.findall(r"\d+|-", p):
                toks.append(piece if piece == '-' else int(piece))
    return toks


def parse_range(s):
    """'bytes=A-B' / 'bytes=A-' (A, B placeholders or digits) -> (start, end or None)"""
    if not (isinstance(s, str) and s.startswith('bytes=')):
        raise AssertionError('not a range header: %r' % (s,))
    toks = _tokens(s[len('bytes='):])
    if len(toks) == 2 and toks[1] == '-':
        return toks[0], None
    if len(toks) == 3 and toks[1] == '-':
        return toks[0], toks[2]
    raise AssertionError('unparsable range %r' % (s,))
