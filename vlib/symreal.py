"""Shim S3 (DESIGN 2.3): values over z3 Real that fork through CrossHair's state space on comparison.
Fresh reals are created inside the harness; a refutation's witness is written through a side channel
(VERIF_WITNESS_OUT) as exact fractions and read back in concrete replay (VERIF_WITNESS_IN)."""
import json
import os
from fractions import Fraction

_WIT_IN = None
_CREATED = []


def _load():
    global _WIT_IN
    p = os.environ.get('VERIF_WITNESS_IN')
    if p and _WIT_IN is None:
        _WIT_IN = {k: Fraction(v) for k, v in json.load(open(p)).items()}
    return _WIT_IN


try:
    import z3
    from crosshair.core import NoTracing
    from crosshair.libimpl.builtinslib import SymbolicBool, SymbolicFloat, SymbolicInt
    from crosshair.statespace import context_statespace, optional_context_statespace
    HAVE = True
except Exception:  # noqa
    HAVE = False


def symbolic_mode():
    if not HAVE or _load() is not None:
        return False
    try:
        return optional_context_statespace() is not None
    except Exception:  # noqa
        return False


def _lift(o):
    if isinstance(o, SymReal):
        return o.e
    if isinstance(o, SymbolicInt):
        return z3.ToReal(o.var)
    if isinstance(o, SymbolicFloat):
        return o.var if o.var.sort() == z3.RealSort() else z3.fpToReal(o.var)
    if isinstance(o, bool):
        return z3.RealVal(int(o))
    if isinstance(o, int):
        return z3.RealVal(o)
    if isinstance(o, Fraction):
        return z3.RealVal(o)
    if isinstance(o, float):
        if o != o or o in (float('inf'), float('-inf')):
            raise OverflowError('non-finite')
        return z3.RealVal(Fraction(o))
    raise TypeError(type(o))


def _isinf(o):
    return type(o) is float and (o == float('inf') or o == float('-inf'))


class SymReal:
    def __init__(self, e):
        self.e = e

    def _bin(self, o, f):
        with NoTracing():
            return SymReal(f(self.e, _lift(o)))

    def _rbin(self, o, f):
        with NoTracing():
            return SymReal(f(_lift(o), self.e))

    def _cmp(self, o, f):
        if _isinf(o):
            return f(0.0, o)    # a finite real against +-inf
        with NoTracing():
            return SymbolicBool(f(self.e, _lift(o)))

    def __add__(self, o):
        if _isinf(o):
            return o            # finite + inf
        return self._bin(o, lambda a, b: a + b)

    def __radd__(self, o):
        if _isinf(o):
            return o
        return self._rbin(o, lambda a, b: a + b)

    def __sub__(self, o):
        if _isinf(o):
            return -o
        return self._bin(o, lambda a, b: a - b)

    def __rsub__(self, o):
        if _isinf(o):
            return o
        return self._rbin(o, lambda a, b: a - b)
    def __mul__(self, o): return self._bin(o, lambda a, b: a * b)
    def __rmul__(self, o): return self._rbin(o, lambda a, b: a * b)
    def __truediv__(self, o): return self._bin(o, lambda a, b: a / b)
    def __rtruediv__(self, o): return self._rbin(o, lambda a, b: a / b)
    def __neg__(self):
        with NoTracing():
            return SymReal(-self.e)
    def __le__(self, o): return self._cmp(o, lambda a, b: a <= b)
    def __lt__(self, o): return self._cmp(o, lambda a, b: a < b)
    def __ge__(self, o): return self._cmp(o, lambda a, b: a >= b)
    def __gt__(self, o): return self._cmp(o, lambda a, b: a > b)
    def __eq__(self, o): return self._cmp(o, lambda a, b: a == b)
    def __ne__(self, o): return self._cmp(o, lambda a, b: a != b)
    def __bool__(self):
        return bool(self != 0)
    __hash__ = None


def fresh(name):
    """a fresh real (symbolic under CrossHair; the witness value / default in a concrete replay)"""
    w = _load()
    if w is not None:
        return float(w.get(name, Fraction(0)))
    if not symbolic_mode():
        return 0.0
    with NoTracing():
        sp = context_statespace()
        v = SymReal(z3.Real(name + sp.uniq()))
    _CREATED.append((name, v))
    return v


def begin():
    del _CREATED[:]


def dump_witness():
    """called by a harness right before it reports a violation: realise every fresh real of this path as an exact
    fraction and write the assignment for the concrete replay"""
    p = os.environ.get('VERIF_WITNESS_OUT')
    if not p or not symbolic_mode():
        return
    out = {}
    with NoTracing():
        sp = context_statespace()
        for name, v in _CREATED:
            try:
                val = sp.find_model_value(v.e)
                out[name] = str(Fraction(val) if not isinstance(val, Fraction) else val)
            except Exception as e:  # noqa
                out[name] = '0'
    try:
        with open(p, 'w') as f:
            json.dump(out, f)
    except Exception:  # noqa
        pass


def exact(x):
    """Fraction view of a concrete number (for oracles that must be exact in replay)"""
    if isinstance(x, float):
        return Fraction(x)
    return x
