import argparse
import os
import subprocess
import sys

from vlib import runner


def main():
    ap = argparse.ArgumentParser()
    ap.add_argument('prop', nargs='?')
    ap.add_argument('--tier', default=os.environ.get('VERIF_TIER', 'quick'))
    ap.add_argument('--only', nargs='*')
    ap.add_argument('--replay')
    a = ap.parse_args()
    if a.replay:
        sys.exit(subprocess.call([runner.PY, '-m', 'vlib.replay', '--file', a.replay], cwd='/verif', env=runner.ENV))
    prop = a.prop.upper()
    mod = prop.lower()
    sys.exit(runner.main(prop, mod, a.tier if a.tier in ('quick', 'thorough') else 'quick', a.only))


if __name__ == '__main__':
    main()
