"""Concrete replay of a solver counterexample: calls the same harness function with plain Python
values — no CrossHair, no shims, real float and formatting — against the current /repo."""
import argparse
import importlib
import json
import os
import sys
import traceback


def run(module, impl, case, args):
    sys.path[:0] = ['/verif']
    from vlib import symreg
    symreg.reset()
    h = importlib.import_module('harness.' + module)
    try:
        r = getattr(h, impl)(*case, *args)
    except Exception as e:  # noqa
        traceback.print_exc()
        r = 'exception:%s|%s' % (type(e).__name__, e)
    return '' if (not r or r == '~') else r


def main():
    ap = argparse.ArgumentParser()
    ap.add_argument('--json')
    ap.add_argument('--file')
    a = ap.parse_args()
    d = json.loads(a.json) if a.json else json.load(open(a.file))
    if d.get('witness') and not os.environ.get('VERIF_WITNESS_IN'):
        import tempfile
        tf = tempfile.NamedTemporaryFile('w', suffix='.json', delete=False)
        json.dump(d['witness'], tf)
        tf.close()
        os.environ['VERIF_WITNESS_IN'] = tf.name
    case = [tuple(c) if isinstance(c, list) else c for c in d['case']]
    r = run(d['module'], d['impl'], case, d['args'])
    print('REPLAY-RESULT ' + json.dumps({'reason': r}))
    sys.exit(1 if r else 0)


if __name__ == '__main__':
    main()
