"""Environment fakes (DESIGN 2.2): identity-content data, in-memory S3 / file system / sources / sinks,
recording subscribers.  All of them are plain Python that works both under CrossHair (lengths, offsets,
fault positions are symbolic ints) and in concrete replay.

Identity content: a Blob stands for the bytes [start, start+n) of "the" object, so "the destination equals
the source" is "the blobs tile [0, size) in order".  Sound for content-oblivious code (payload scan in
vlib/scans.py)."""
import socket

from vlib import symreg


class Injected(Exception):
    """non-retryable fault injected by the environment"""

    def __init__(self, kind='', idx=-1):
        Exception.__init__(self, 'injected')
        self.kind = kind
        self.idx = idx


class InjectedOS(OSError):
    """non-retryable fault of the OSError family (e.g. EIO): NOT in S3_RETRYABLE_DOWNLOAD_ERRORS, which lists
    ConnectionError, socket.timeout and botocore's read errors only"""

    def __init__(self, kind='', idx=-1):
        OSError.__init__(self, 5, 'injected I/O error')
        self.kind = kind
        self.idx = idx


class RetryableInjected(socket.timeout):
    """retryable stream fault (member of S3_RETRYABLE_DOWNLOAD_ERRORS through socket.timeout)"""


class InjectedTimeout(socket.timeout):
    """a NON-stream fault (destination write, file-system operation, source read, non-GetObject request) whose TYPE
    happens to belong to the retryable family (socket.timeout): must be reported like any other failure"""

    def __init__(self, kind='', idx=-1):
        socket.timeout.__init__(self, 'injected timeout')
        self.kind = kind
        self.idx = idx


class InjectedConn(ConnectionResetError):
    """as InjectedTimeout, of the ConnectionError family (e.g. a broken pipe / reset socket behind the destination)"""

    def __init__(self, kind='', idx=-1):
        ConnectionResetError.__init__(self, 104, 'injected connection reset')
        self.kind = kind
        self.idx = idx


class Nondet:
    """supplies the environment's choices from a list of (symbolic) integers; exhausted -> default"""

    def __init__(self, vals=()):
        self.vals = list(vals)
        self.k = 0

    def next(self, default=0):
        if self.k < len(self.vals):
            v = self.vals[self.k]
            self.k += 1
            return v
        return default


class Env:
    """shared logical clock, event log, numbering of environment calls and single-fault injection"""

    def __init__(self, fault_at=-1, fault_phase=0, nd=None, faultable=None, fault_at2=-1):
        self.fault_at2 = fault_at2     # optional second fault (before the effect), for fault pairs
        self.fault_cls = 0             # exception type of the injected fault: 0 plain Exception, 1 OSError, 2 socket.timeout
        #                                family, 3 ConnectionError family (2/3 never on GetObject / body reads, where a
        #                                retry is legitimate)
        self.all_delivered = []
        self.clock = 0
        self.log = []
        self.n = 0
        self.fault_at = fault_at
        self.fault_phase = fault_phase
        self.delivered = None
        self.nd = nd or Nondet()
        self.sched = None
        self.faultable = faultable
        self.stage = None       # set by instrumented executors: which stage runs the current task
        self.kinds = []

    def stamp(self, *ev):
        self.clock += 1
        self.log.append((self.clock,) + ev)
        return self.clock

    def _counts(self, kind):
        return self.faultable is None or kind.split('.')[0] in self.faultable or kind in self.faultable

    def _exc(self, kind, idx):
        c = self.fault_cls
        if c == 0 or kind in ('s3.get_object', 's3.body_read'):
            return Injected(kind, idx)
        if c == 1:
            return InjectedOS(kind, idx)
        if c == 2:
            return InjectedTimeout(kind, idx)
        return InjectedConn(kind, idx)

    def call(self, kind, **info):
        """entry of an environment call; returns its index (or -1 when the kind is not numbered)"""
        if self._counts(kind):
            idx = self.n
            self.n += 1
            self.kinds.append(kind)
        else:
            idx = -1
        if self.sched is not None:
            info['tid'] = self.sched.tid
        self.stamp('begin', kind, idx, self.stage, info)
        if self.sched is not None:
            self.sched.point(kind + ':begin')
        if idx >= 0 and self.fault_phase == 0 and idx == self.fault_at:
            self.delivered = (idx, kind)
            self.all_delivered.append((idx, kind))
            self.stamp('fault', kind, idx)
            raise self._exc(kind, idx)
        if idx >= 0 and self.fault_at2 >= 0 and idx == self.fault_at2:
            if self.delivered is None:
                self.delivered = (idx, kind)
            self.all_delivered.append((idx, kind))
            self.stamp('fault', kind, idx)
            raise Injected(kind, idx)
        return idx

    def ret(self, kind, idx):
        if self.sched is not None:
            self.sched.point(kind + ':end')
        self.stamp('end', kind, idx, self.stage)
        if idx >= 0 and self.fault_phase == 1 and kind.startswith('s3.') and idx == self.fault_at:
            # 'the service applied the call, the client got an error' (only meaningful for requests)
            self.delivered = (idx, kind)
            self.stamp('fault', kind, idx)
            raise self._exc(kind, idx)

    def events(self, what, kind_prefix=''):
        return [e for e in self.log if e[1] == what and e[2].startswith(kind_prefix)]


# --------------------------------------------------------------------------- identity-content data
class Blob:
    """bytes [start, start+n) of the object (possibly several such segments in sequence)"""

    def __init__(self, start=0, n=0, segs=None):
        self.segs = segs if segs is not None else ((start, n),)

    def __len__(self):
        t = 0
        for _, n in self.segs:
            t = t + n
        return t

    def __bool__(self):
        if len(self) > 0:
            return True
        return False

    def slice(self, a, b):
        out = []
        off = 0
        for s, n in self.segs:
            lo = a if a > off else off
            hi = b if b < off + n else off + n
            if lo < hi:
                out.append((s + (lo - off), hi - lo))
            off = off + n
        return Blob(segs=tuple(out))

    def __getitem__(self, key):
        if not isinstance(key, slice) or key.step is not None:
            raise TypeError('Blob supports plain slices only (payload indexing would be content-dependent)')
        ln = len(self)
        a = 0 if key.start is None else key.start
        b = ln if key.stop is None else key.stop
        if a < 0 or b < 0:
            raise TypeError('negative slice bounds not modelled')
        if b > ln:
            b = ln
        if a > b:
            a = b
        return self.slice(a, b)

    def __add__(self, other):
        if isinstance(other, Blob):
            return Blob(segs=self.segs + other.segs)
        if isinstance(other, (bytes, bytearray)) and len(other) == 0:
            return self
        return NotImplemented

    def __radd__(self, other):
        if isinstance(other, (bytes, bytearray)) and len(other) == 0:
            return self
        return NotImplemented

    def __eq__(self, other):
        if isinstance(other, (bytes, bytearray)):
            if len(other) == 0:
                return len(self) == 0
            return False
        if isinstance(other, Blob):
            return norm(self.segs) == norm(other.segs)
        return NotImplemented

    def __ne__(self, other):
        r = self.__eq__(other)
        return r if r is NotImplemented else not r

    __hash__ = None

    def __lt__(self, other):   # heapq tie-break in DeferQueue: arbitrary but total and content-free
        return False

    def __repr__(self):
        return 'Blob(%s)' % (self.segs,)


def norm(segs):
    """drop empty segments, merge adjacent ones"""
    out = []
    for s, n in segs:
        if n > 0:
            if out and out[-1][0] + out[-1][1] == s:
                out[-1] = (out[-1][0], out[-1][1] + n)
            else:
                out.append((s, n))
    return out


def segs_of(blobs):
    out = []
    for b in blobs:
        out.extend(b.segs)
    return out


def tiles_in_order(segs, lo, hi):
    """the segments, in the given order, are exactly [lo, hi) with no gap / overlap / reordering"""
    pos = lo
    for s, n in segs:
        if n > 0:
            if s != pos:
                return False
            pos = pos + n
    return pos == hi


class BlobIO:
    """stand-in for io.BytesIO over a Blob (installed as the name BytesIO inside s3transfer.upload)"""

    def __init__(self, data):
        self.data = data
        self.pos = 0
        self.closed = False

    def read(self, amt=None):
        ln = len(self.data)
        left = ln - self.pos
        if left < 0:
            left = 0
        k = left if amt is None or amt < 0 or amt > left else amt
        b = self.data.slice(self.pos, self.pos + k)
        self.pos = self.pos + k
        return b

    def seek(self, where, whence=0):
        if whence == 0:
            self.pos = where
        elif whence == 1:
            self.pos = self.pos + where
        else:
            self.pos = len(self.data) + where
        if self.pos < 0:
            raise ValueError('negative seek')
        return self.pos

    def tell(self):
        return self.pos

    def close(self):
        self.closed = True


def bytesio_factory(data=b''):
    import io
    if isinstance(data, Blob):
        return BlobIO(data)
    return io.BytesIO(data)


# --------------------------------------------------------------------------- sources
class FakeFile:
    """identity-content readable file of (symbolic) length `size`; every read is an environment call"""

    def __init__(self, size, pos=0, env=None, kind='src', short=False, seekable=True, name=None):
        self.size = size
        self.pos = pos
        self.env = env
        self.kind = kind
        self.short = short
        self._seekable = seekable
        self.closed = False
        self.reads = []
        self.seeks = []
        self.name = name

    def readable(self):
        return True

    def seekable(self):
        return self._seekable

    def read(self, amt=None):
        idx = self.env.call(self.kind + '.read') if self.env else -1
        left = self.size - self.pos
        if left < 0:
            left = 0
        k = left if amt is None or amt < 0 or amt > left else amt
        if self.short and self.env is not None and k > 1 and amt is not None and amt >= 0:
            s = self.env.nd.next(0)
            if 0 < s < k:
                k = s
        b = Blob(self.pos, k)
        self.reads.append((self.pos, k))
        self.pos = self.pos + k
        if self.env:
            self.env.ret(self.kind + '.read', idx)
        return b

    def seek(self, where, whence=0):
        if not self._seekable:
            raise OSError('not seekable')
        if whence == 0:
            self.pos = where
        elif whence == 1:
            self.pos = self.pos + where
        else:
            self.pos = self.size + where
        self.seeks.append(self.pos)
        return self.pos

    def tell(self):
        if not self._seekable:
            raise OSError('not seekable')
        return self.pos

    def close(self):
        self.closed = True

    def __enter__(self):
        return self

    def __exit__(self, *a):
        self.close()


class DuckFile:
    """a seekable stream object that offers only read / seek / tell (no seekable() / readable() methods), like
    hand-written wrappers: s3transfer.compat.seekable() has to probe it"""

    def __init__(self, size, pos=0, env=None):
        self._f = FakeFile(size, pos, env, 'src')

    def read(self, amt=None):
        return self._f.read(amt)

    def seek(self, where, whence=0):
        return self._f.seek(where, whence)

    def tell(self):
        return self._f.tell()

    def close(self):
        self._f.close()

    @property
    def reads(self):
        return self._f.reads

    @property
    def pos(self):
        return self._f.pos


class NonSeekableSource:
    """readable, not seekable (no seek/tell attributes at all)"""

    def __init__(self, size, env=None, short=False):
        self._f = FakeFile(size, 0, env, 'src', short=short, seekable=False)

    def read(self, amt=None):
        return self._f.read(amt)

    @property
    def reads(self):
        return self._f.reads

    @property
    def pos(self):
        return self._f.pos


# --------------------------------------------------------------------------- sinks
class SeekableSink:
    def __init__(self, env=None):
        self.env = env
        self.pos = 0
        self.writes = []   # (dest offset, blob)

    def seekable(self):
        return True

    def seek(self, off, whence=0):
        if whence == 0:
            self.pos = off
        elif whence == 1:
            self.pos = self.pos + off
        else:
            raise OSError('whence 2 not modelled')

    def tell(self):
        return self.pos

    def write(self, data):
        idx = self.env.call('dst.write') if self.env else -1
        self.writes.append((self.pos, data))
        self.pos = self.pos + len(data)
        if self.env:
            self.env.ret('dst.write', idx)


class StreamSink:
    """non-seekable destination: only write()"""

    def __init__(self, env=None):
        self.env = env
        self.writes = []

    def write(self, data):
        idx = self.env.call('dst.write') if self.env else -1
        self.writes.append(data)
        if self.env:
            self.env.ret('dst.write', idx)


def written_ok_seekable(writes, size):
    """every write is identity (byte p lands at offset p), nothing beyond size, union covers [0,size).
    Returns None or a reason."""
    ivs = []
    for off, data in writes:
        cur = off
        for s, n in data.segs:
            if n > 0:
                if s != cur:
                    return 'write at wrong offset'
                if cur + n > size:
                    return 'write beyond object size'
                ivs.append((cur, n))
            cur = cur + n
    # insertion sort by offset (forks on symbolic comparisons; lists are short)
    srt = []
    for iv in ivs:
        i = len(srt)
        while i > 0 and srt[i - 1][0] > iv[0]:
            i -= 1
        srt.insert(i, iv)
    pos = 0
    for o, n in srt:
        if o > pos:
            return 'gap in destination'
        if o + n > pos:
            pos = o + n
    if pos != size:
        return 'destination shorter than object'
    return None


def written_ok_stream(writes, size):
    """strictly sequential: concatenation of the writes is [0,size), each byte once"""
    pos = 0
    for data in writes:
        for s, n in data.segs:
            if n > 0:
                if s != pos:
                    return 'stream write out of order / duplicated / gap'
                pos = pos + n
    if pos != size:
        return 'stream destination incomplete'
    return None


# --------------------------------------------------------------------------- file system
class FakeFS:
    """in-memory directory; the crash-point invariant of C06 is evaluated after every operation"""

    PREV = 'PREVIOUS-CONTENT'

    def __init__(self, env, dest=None, prev=False, total=None, special=()):
        self.env = env
        self.files = {}
        self.dest = dest
        self.prev = prev
        self.total = total
        self.special = set(special)
        if prev and dest is not None:
            self.files[dest] = self.PREV
        self.bad = None
        self.renamed = False
        self.ops = []
        self.stream_writes = []    # writes to a special (FIFO-like) destination, in order

    def check(self):
        if self.dest is None or self.dest in self.special:
            return
        d = self.files.get(self.dest)
        if d is None:
            if self.prev and not self.renamed:
                self.bad = 'previous destination content vanished'
            return
        if d == self.PREV:
            return
        if written_ok_seekable(d, self.total) is not None:
            self.bad = 'partial content visible under the destination name'

    def op(self, name, path):
        idx = self.env.call('fs.' + name)
        self.ops.append((name, path))
        return idx

    def done(self, name, idx):
        self.check()
        self.env.ret('fs.' + name, idx)


class FSFile:
    def __init__(self, fs, path):
        self.fs = fs
        self.path = path
        self.pos = 0
        self.closed = False

    def seek(self, off, whence=0):
        self.pos = off

    def tell(self):
        return self.pos

    def write(self, data):
        idx = self.fs.op('write', self.path)
        cur = self.fs.files.get(self.path)
        if self.path in self.fs.special:
            self.fs.stream_writes.append(data)
        elif cur is None or cur == FakeFS.PREV:
            # the name was removed / replaced behind our back: model as writing to an unlinked inode
            cur = []
        else:
            cur.append((self.pos, data))
        self.pos = self.pos + len(data)
        self.fs.done('write', idx)

    def close(self):
        if not self.closed:
            idx = self.fs.op('close', self.path)
            self.closed = True
            self.fs.done('close', idx)

    def __enter__(self):
        return self

    def __exit__(self, *a):
        self.close()


class _PathShim:
    def __init__(self, fs, real):
        self._fs, self._real = fs, real

    def isfile(self, p):
        if p in self._fs.files:
            return True
        return False

    exists = isfile

    def __getattr__(self, n):
        return getattr(self._real, n)


class _OsShim:
    """`os` as seen by OSUtils.rename_file: the fake file system answers isfile / exists / remove, the rest is os"""

    def __init__(self, fs, osutil, real):
        self._fs, self._osutil, self._real = fs, osutil, real
        self.path = _PathShim(fs, real.path)

    def remove(self, p):
        idx = self._fs.op('remove', p)
        self._fs.files.pop(p, None)
        self._fs.done('remove', idx)

    unlink = remove

    def __getattr__(self, n):
        return getattr(self._real, n)


def make_osutils(fs, src_size=None, env=None):
    """FakeOSUtils subclassing the real OSUtils (only the OS-touching methods are replaced)"""
    from s3transfer.utils import OSUtils

    class FakeOSUtils(OSUtils):
        def get_file_size(self, filename):
            return src_size

        def open(self, filename, mode):
            if 'r' in mode:
                idx = env.call('fs.open') if env else -1
                f = FakeFile(src_size, 0, env, 'src', name=filename)
                if env:
                    env.ret('fs.open', idx)
                return f
            idx = fs.op('open', filename)
            if filename not in fs.special:
                fs.files[filename] = []
            f = FSFile(fs, filename)
            fs.done('open', idx)
            return f

        def remove_file(self, filename):
            # contract of the real OSUtils.remove_file: an OSError of os.remove is swallowed (the file stays)
            try:
                idx = fs.op('remove', filename)
            except (Injected, InjectedOS, InjectedTimeout, InjectedConn):
                return
            fs.files.pop(filename, None)
            fs.done('remove', idx)

        def _prim_rename(self, cur, new):
            # the OS primitive (compat.rename_file = os.replace semantics: atomic, replaces an existing name)
            idx = fs.op('rename', cur)
            if cur not in fs.files:
                raise OSError('rename: no such file')
            fs.files[new] = fs.files.pop(cur)
            if new == fs.dest:
                fs.renamed = True
            fs.done('rename', idx)

        def rename_file(self, cur, new):
            # the REAL OSUtils.rename_file runs; only what it reaches in the OS is replaced: the module-level
            # rename_file primitive and an `os` whose path.isfile / path.exists / remove answer from the fake FS
            import s3transfer.utils as U
            old_r, old_os = U.rename_file, U.os
            U.rename_file = self._prim_rename
            U.os = _OsShim(fs, self, old_os)
            try:
                OSUtils.rename_file(self, cur, new)
            finally:
                U.rename_file, U.os = old_r, old_os

        def is_special_file(self, filename):
            return fs is not None and filename in fs.special

        def get_temp_filename(self, filename):
            return filename + '.TMPSUFFX'

        def allocate(self, filename, size):
            try:
                with self.open(filename, 'wb'):
                    pass
            except (OSError, Injected):
                self.remove_file(filename)
                raise

    return FakeOSUtils()


# --------------------------------------------------------------------------- subscribers
class RecSubscriber:
    """records every callback with the shared logical clock; can provide the size in on_queued; can raise"""

    def __init__(self, env, name='s', size=None, raise_in_done=False, faultable=True):
        self.env = env
        self.name = name
        self.size = size
        self.raise_in_done = raise_in_done
        self.faultable = faultable
        self.queued = 0
        self.done = 0
        self.progress = []
        self.done_state = None
        self.reenter = None

    def on_queued(self, future, **kw):
        idx = self.env.call('cb.on_queued') if self.faultable else -1
        self.queued += 1
        self.env.stamp('cb', 'queued', self.name)
        if self.size is not None:
            future.meta.provide_transfer_size(self.size)
        if self.reenter:
            self.reenter('queued', future)
        if self.faultable:
            self.env.ret('cb.on_queued', idx)

    def on_progress(self, future, bytes_transferred, **kw):
        idx = self.env.call('cb.on_progress') if self.faultable else -1
        self.progress.append(bytes_transferred)
        self.env.stamp('cb', 'progress', self.name, bytes_transferred)
        if self.reenter:
            self.reenter('progress', future)
        if self.faultable:
            self.env.ret('cb.on_progress', idx)

    def on_done(self, future, **kw):
        if getattr(self, 'slow_done', False):
            # a slow on_done callback: other threads can run while it is executing
            if self.env.sched is not None:
                self.env.sched.point('cb.on_done:begin')
        self.done += 1
        self.done_state = (future.done(), future._coordinator._done_event.is_set())
        self.env.stamp('cb', 'done', self.name)
        if self.reenter:
            self.reenter('done', future)
        if self.raise_in_done:
            raise RuntimeError('subscriber on_done raises')


# --------------------------------------------------------------------------- S3
class _Events:
    def __init__(self):
        self.first = []
        self.last = []
        self.plain = []

    def register_first(self, name, handler, unique_id=None, **kw):
        self.first.append((name, handler))

    def register_last(self, name, handler, unique_id=None, **kw):
        self.last.append((name, handler))

    def register(self, name, handler, unique_id=None, **kw):
        self.plain.append((name, handler))

    def unregister(self, *a, **kw):
        pass


class _Cfg:
    def __init__(self, rcc):
        self.request_checksum_calculation = rcc


class _Meta:
    def __init__(self, rcc):
        self.events = _Events()
        self.config = _Cfg(rcc)


class _Request:
    def __init__(self, body):
        self.body = body


class FakeBody:
    """streaming GetObject body over [start, start+n): short reads and one optional fault per attempt"""

    def __init__(self, s3, start, n, fail_after, retryable):
        self.s3 = s3
        self.pos = start
        self.end = start + n
        self.fail_at = None if fail_after is None else start + fail_after
        self.retryable = retryable

    def read(self, amt=None):
        env = self.s3.env
        idx = env.call('s3.body_read')
        left = self.end - self.pos
        if self.fail_at is not None and self.pos >= self.fail_at:
            self.s3.stream_faults += 1
            env.stamp('stream-fault', self.retryable)
            if self.retryable is True:
                raise RetryableInjected('injected stream fault')
            if self.retryable == 'os':
                raise InjectedOS('s3.body_read', idx)
            raise Injected('s3.body_read', idx)
        if self.fail_at is not None and self.fail_at - self.pos < left:
            left = self.fail_at - self.pos
        k = left if amt is None or amt < 0 or amt > left else amt
        if self.s3.short_reads and k > 1:
            s = env.nd.next(0)
            if 0 < s < k:
                k = s
        b = Blob(self.pos, k)
        self.pos = self.pos + k
        env.ret('s3.body_read', idx)
        return b

    def close(self):
        pass


class FakeS3:
    """In-memory S3: one source object of `size` bytes (identity content), an object table for uploads, a
    multipart table with begin/end events, a keyword log per call."""

    def __init__(self, env, size=None, rcc='when_required', short_reads=False, stream_faults=(), body_reads=(),
                 resend=0, preread=False):
        self.env = env
        self.size = size
        self.meta = _Meta(rcc)
        self.calls = []            # (op, kwargs)
        self.objects = {}          # key -> list of blobs
        self.uploads = {}          # upload id -> dict
        self.next_upload = 0
        self.short_reads = short_reads
        self.stream_fault_script = list(stream_faults)   # consumed per get_object attempt: (after_bytes, retryable)
        self.stream_faults = 0
        self.body_reads = list(body_reads)     # sizes of the first reads of each sent body (None/<=0 = all)
        self.resend = resend                   # how many times each body is rewound and re-sent (client retries)
        self.preread = preread                 # body read + rewound while progress is disabled (signing)
        self.gets = []
        self.bad = None
        self.deleted = []
        self.part_attempts = {}
        self.body_sizes = []       # bytes of every fully received request body, in completion order
        self.chunked = False       # request.body handed to the request-created handlers is an AwsChunkedWrapper

    # -- plumbing
    def _begin(self, op, kw):
        self.calls.append((op, kw))
        return self.env.call('s3.' + op)

    def _end(self, op, idx):
        self.env.ret('s3.' + op, idx)

    def _handlers(self, which, body, opname):
        if self.chunked:
            # botocore sends bodies with a trailing checksum wrapped in AwsChunkedWrapper: request.body is the wrapper
            from botocore.httpchecksum import AwsChunkedWrapper
            body = AwsChunkedWrapper(body)
        req = _Request(body)
        for name, h in which:
            h(request=req, operation_name=opname)

    def _send_body(self, body, opname):
        """botocore's side of the body protocol (assumption A3); returns the blobs of the final attempt"""
        ev = self.meta.events
        self._handlers(ev.first, body, opname)
        if self.preread:
            start = body.tell()
            body.read()
            body.seek(start)
        self._handlers(ev.last, body, opname)
        attempt = 0
        while True:
            got = []
            a = self.body_reads.pop(0) if self.body_reads else None
            if a is not None and a > 0:
                got.append(body.read(a))
            got.append(body.read())
            tail = body.read(1)
            if len(tail) != 0:
                self.bad = 'body returned data after EOF'
            if attempt >= self.resend:
                return got
            attempt += 1
            body.seek(0)

    # -- object operations
    def head_object(self, **kw):
        idx = self._begin('head_object', kw)
        self._end('head_object', idx)
        return {'ContentLength': self.size}

    def get_object(self, **kw):
        idx = self._begin('get_object', kw)
        rng = kw.get('Range')
        if rng is None:
            start, n = 0, self.size
        else:
            start, end = symreg.parse_range(rng)
            if end is None:
                n = self.size - start
            else:
                n = end - start + 1
            if start < 0 or n < 0 or start + n > self.size:
                self.bad = 'range outside the object'
        fa, retry = None, True
        if self.stream_fault_script:
            fa, retry = self.stream_fault_script.pop(0)
            if fa is not None and (fa < 0 or fa > n):
                fa = None
        self.gets.append((start, n, fa))
        self._end('get_object', idx)
        return {'Body': FakeBody(self, start, n, fa, retry), 'ContentLength': n}

    def put_object(self, **kw):
        idx = self._begin('put_object', kw)
        got = self._send_body(kw['Body'], 'PutObject')
        self.objects[kw['Key']] = got
        self.body_sizes.append(sum(len(b) for b in got))
        self._end('put_object', idx)
        return {'ETag': 'etag-put'}

    def delete_object(self, **kw):
        idx = self._begin('delete_object', kw)
        self.deleted.append(kw.get('Key'))
        self._end('delete_object', idx)
        return {}

    def copy_object(self, **kw):
        idx = self._begin('copy_object', kw)
        self.objects[kw['Key']] = [Blob(0, self.size)]
        self._end('copy_object', idx)
        return {}

    # -- multipart
    def create_multipart_upload(self, **kw):
        idx = self._begin('create_multipart_upload', kw)
        uid = 'upload-%d' % self.next_upload
        self.next_upload += 1
        self.uploads[uid] = {'parts': {}, 'completed': 0, 'aborted': 0, 'listed': None, 'key': kw.get('Key'),
                             'returned': False, 'inflight': 0, 'ordering': None}
        self._end('create_multipart_upload', idx)
        self.uploads[uid]['returned'] = True
        return {'UploadId': uid}

    def _mp(self, uid, op):
        u = self.uploads.get(uid)
        if u is None:
            self.bad = op + ' for unknown upload id'
            u = {'parts': {}, 'completed': 0, 'aborted': 0, 'listed': None, 'inflight': 0, 'ordering': None}
            self.uploads[uid] = u
        if op != 'abort' and u['aborted'] and u['ordering'] is None:
            u['ordering'] = op + ' request issued after abort'
        if op == 'abort' and u['inflight'] and u['ordering'] is None:
            u['ordering'] = 'abort issued while another request for the upload is in flight'
        return u

    def upload_part(self, **kw):
        u = self._mp(kw['UploadId'], 'upload_part')
        u['inflight'] += 1
        try:
            idx = self._begin('upload_part', kw)
            got = self._send_body(kw['Body'], 'UploadPart')
            num = kw['PartNumber']
            att = self.part_attempts.get(num, 0) + 1
            self.part_attempts[num] = att
            etag = '"etag-%s-%s"' % (num, att)      # quoted, as S3 returns them
            resp = {'ETag': etag}
            if 'ChecksumAlgorithm' in kw:
                resp['Checksum' + kw['ChecksumAlgorithm'].upper()] = 'cksum-%s-%s' % (num, att)
            u['parts'][num] = (got, resp)
            self.body_sizes.append(sum(len(b) for b in got))
            self._end('upload_part', idx)
        finally:
            u['inflight'] -= 1
        return dict(resp)

    def upload_part_copy(self, **kw):
        u = self._mp(kw['UploadId'], 'upload_part_copy')
        u['inflight'] += 1
        try:
            idx = self._begin('upload_part_copy', kw)
            start, end = symreg.parse_range(kw['CopySourceRange'])
            if end is None:
                self.bad = 'CopySourceRange must be closed'
                end = self.size - 1
            if end < start or start >= self.size or end >= self.size:
                self.bad = 'CopySourceRange empty or outside the source object (S3 answers InvalidArgument)' 
            num = kw['PartNumber']
            att = self.part_attempts.get(num, 0) + 1
            self.part_attempts[num] = att
            res = {'ETag': '"etag-%s-%s"' % (num, att)}      # quoted, as S3 returns them
            for alg in ('CRC32', 'CRC32C', 'SHA1', 'SHA256', 'CRC64NVME'):
                res['Checksum' + alg] = 'cksum-%s-%s-%s' % (alg, num, att)
            u['parts'][num] = ([Blob(start, end - start + 1)], res)
            self._end('upload_part_copy', idx)
        finally:
            u['inflight'] -= 1
        return {'CopyPartResult': dict(res)}

    def complete_multipart_upload(self, **kw):
        u = self._mp(kw['UploadId'], 'complete_multipart_upload')
        u['inflight'] += 1
        try:
            idx = self._begin('complete_multipart_upload', kw)
            u['completed'] += 1
            u['listed'] = [p for p in kw['MultipartUpload']['Parts'] if p is not None]
            if len(u['listed']) != len(kw['MultipartUpload']['Parts']):
                self.bad = 'CompleteMultipartUpload sent with a missing (None) part'
            blobs = []
            for p in u['listed']:
                ent = u['parts'].get(p.get('PartNumber'))
                if ent is not None:
                    blobs.extend(ent[0])
            self.objects[kw['Key']] = blobs
            self._end('complete_multipart_upload', idx)
        finally:
            u['inflight'] -= 1
        return {}

    def abort_multipart_upload(self, **kw):
        u = self._mp(kw['UploadId'], 'abort')
        idx = self._begin('abort_multipart_upload', kw)
        u['aborted'] += 1
        self._end('abort_multipart_upload', idx)
        return {}

    # -- oracles
    def ops(self):
        return [c[0] for c in self.calls]

    def check_object(self, key, size):
        """stored object == source bytes [0,size)"""
        blobs = self.objects.get(key)
        if blobs is None:
            return 'no object stored'
        if not tiles_in_order(segs_of(blobs), 0, size):
            return 'stored object differs from the source'
        return None

    def check_complete_args(self, uid, with_checksum=None):
        """parts listed 1..n ascending, each with the ETag (and checksum) S3 returned for that part"""
        u = self.uploads[uid]
        if u['completed'] != 1:
            return 'multipart upload not completed exactly once'
        listed = u['listed']
        if len(listed) != len(u['parts']):
            return 'listed parts differ from uploaded parts'
        for i, p in enumerate(listed):
            if p.get('PartNumber') != i + 1:
                return 'parts not numbered 1..n ascending'
            ent = u['parts'].get(i + 1)
            if ent is None:
                return 'listed part was never uploaded'
            if p.get('ETag') != ent[1]['ETag']:
                return 'part listed with an ETag S3 did not return for it'
            if with_checksum:
                if p.get(with_checksum) != ent[1].get(with_checksum):
                    return 'part listed without / with wrong part checksum'
            extra = [k for k in p if k not in ('PartNumber', 'ETag', with_checksum)]
            if extra:
                return 'unexpected member in listed part'
        return None

    def check_multipart_lifecycle(self, ok):
        """C05 oracle for every upload id the library received"""
        for uid, u in self.uploads.items():
            if not u.get('returned'):
                continue
            if u['completed'] > 1:
                return 'mp: completed twice'
            if u['ordering']:
                return 'mp: ' + u['ordering']
            if ok:
                if u['completed'] != 1:
                    return 'mp: success without exactly one complete'
                if u['aborted']:
                    return 'mp: success but upload aborted'
            else:
                if not u['aborted']:
                    return 'mp: failed/cancelled transfer left the upload open (no abort)'
        return None
