"""Engine NS (DESIGN 2.5): model executor + model threading primitives + nested symbolic schedules.

`install()` rebinds the name `threading` inside the s3transfer modules to a namespace of model primitives and
returns nothing; `Sched` holds the symbolic schedule.  Every explored run is a real, feasible thread schedule:
one thread proceeds while the others stand still at an environment call or at a blocking primitive."""
import types

from s3transfer.futures import BaseExecutor


class Stuck(BaseException):
    """nothing runnable while a lower frame is merely suspended at an environment call: undecidable -> pruned"""


class Deadlock(BaseException):
    """definite: a thread blocks forever (self-deadlock on a lock, or nothing can ever make progress)"""


S = None  # current scheduler


class Sched:
    def __init__(self, choices=(), cancel_at=-1, cancel_fn=None, nest=(), pump=()):
        """choices: consumed in order at every decision with more than one option (dense control);
        nest = [(point index, k)]: at that scheduling point start the k-th runnable executor's next task nested;
        pump = [(pump index, k)]: at that pump step of a blocking primitive run the k-th runnable executor instead
        of the default one (sparse control: a few symbolic positions reach deep into a run)"""
        global S
        self.nest = list(nest)
        self.pump = list(pump)
        self.pumps = 0
        self.choices = list(choices)
        self.k = 0
        self.execs = []
        self.tid_stack = [0]
        self.next_tid = 1
        self.points = 0
        self.cancel_at = cancel_at
        self.cancel_fn = cancel_fn
        self.cancelled_at_point = None
        self.deadlock = None      # recorded because the code under test swallows BaseException in places
        self.stuck = False
        self.suspended_env = 0    # frames suspended inside an environment call (they could go on in real life)
        self.labels = []
        self.interrupt_pending = False   # the next blocking Event.wait() is interrupted by Ctrl-C
        S = self

    # -- choices
    def choose(self, n):
        if n <= 1 or self.k >= len(self.choices):
            return 0
        c = self.choices[self.k]
        self.k += 1
        for i in range(n - 1):
            if c == i:
                return i
        return n - 1

    def runnable(self):
        return [e for e in self.execs if e.can_start()]

    @property
    def tid(self):
        return self.tid_stack[-1]

    # -- scheduling points
    def point(self, label):
        """inside an environment call: maybe inject the cancel, maybe start queued tasks nested on top"""
        idx = self.points
        self.points += 1
        self.suspended_env += 1      # the caller is suspended inside an environment call from here on
        try:
            if self.cancel_fn is not None and self.cancelled_at_point is None and idx == self.cancel_at:
                self.cancelled_at_point = idx
                self.labels.append(('cancel', label))
                self.cancel_fn()
            for (p, k) in self.nest:
                if p == idx:
                    r = self.runnable()
                    for j in range(len(r)):
                        if k == j:
                            r[j].start_next()
                            break
            while True:
                r = self.runnable()
                if not r:
                    return
                c = self.choose(1 + len(r))
                if c == 0:
                    return
                r[c - 1].start_next()
        finally:
            self.suspended_env -= 1

    def block_until(self, cond, what):
        """a blocking primitive: run other work until cond() holds"""
        while not cond():
            if self.stuck:
                raise Stuck()      # the run is already abandoned (the code under test swallowed the signal)
            # default (choice 0): downstream stages first (io, submission, request) - what a blocked thread is
            # usually waiting for; other orders through the symbolic choices
            r = self.runnable()[::-1]
            if not r:
                if self.suspended_env > 0:
                    self.stuck = True
                    raise Stuck()
                self.deadlock = 'deadlock: %s can never be satisfied' % what
                raise Deadlock(self.deadlock)
            b = self.pumps
            self.pumps += 1
            pick = None
            for (pb, k) in self.pump:
                if pb == b:
                    for j in range(len(r)):
                        if k == j:
                            pick = j
            if pick is None:
                pick = self.choose(len(r))
            r[pick].start_next()

    def drain(self):
        while True:
            r = self.runnable()
            if not r:
                return
            r[self.choose(len(r))].start_next()

    def quiescent(self):
        return all(not e.q and e.running == 0 for e in self.execs)


class MFuture:
    def __init__(self, seq):
        self.seq = seq
        self._done = False
        self._res = None
        self._exc = None
        self._cbs = []

    def __hash__(self):
        return self.seq

    def done(self):
        return self._done

    def result(self, timeout=None):
        S.block_until(lambda: self._done, 'future.result()')
        if self._exc is not None:
            raise self._exc
        return self._res

    def add_done_callback(self, fn):
        if self._done:
            fn(self)
        else:
            self._cbs.append(fn)

    def _finish(self, res, exc):
        self._res = res
        self._exc = exc
        self._done = True
        cbs, self._cbs = self._cbs, []
        for cb in cbs:
            try:
                cb(self)
            except Exception:  # noqa  (concurrent.futures logs and swallows)
                pass


STAGES = ['request', 'submission', 'io']


class ModelExecutor(BaseExecutor):
    """FIFO executor with max_workers workers; *when* queued heads start is the scheduler's (symbolic) choice.
    The TransferManager creates its executors in the order request, submission, io."""
    _seq = 0

    def __init__(self, max_workers=None):
        self.max_workers = max_workers
        self.q = []
        self.running = 0
        self.closed = False
        self.max_running = 0
        self.max_occupancy = 0
        self.env = None
        n = len(S.execs)
        self.stage = STAGES[n] if n < 3 else 'extra%d' % n
        S.execs.append(self)
        self.started = []

    def submit(self, fn, *args, **kw):
        if self.closed:
            raise RuntimeError('cannot schedule new futures after shutdown')
        ModelExecutor._seq += 1
        fut = MFuture(ModelExecutor._seq)
        self.q.append((fut, fn, args, kw))
        occ = len(self.q) + self.running
        if occ > self.max_occupancy:
            self.max_occupancy = occ
        return fut

    def can_start(self):
        return len(self.q) > 0 and self.running < self.max_workers

    def start_next(self):
        fut, fn, args, kw = self.q.pop(0)
        self.running += 1
        if self.running > self.max_running:
            self.max_running = self.running
        S.tid_stack.append(S.next_tid)
        S.next_tid += 1
        env = self.env
        prev_stage = env.stage if env is not None else None
        if env is not None:
            env.stage = self.stage
        res = None
        exc = None
        try:
            try:
                res = fn(*args, **kw)
            except Exception as e:  # noqa
                exc = e
        finally:
            tid = S.tid_stack.pop()
            self.running -= 1
            if env is not None:
                env.stage = prev_stage
                env.stamp('task-end', self.stage, tid)
        fut._finish(res, exc)

    def shutdown(self, wait=True):
        self.closed = True
        if wait:
            S.block_until(lambda: not self.q and self.running == 0, 'executor.shutdown(wait=True)')


def _tid():
    return S.tid if S is not None else 0


class MLock:
    def __init__(self):
        self.owner = None

    def acquire(self, blocking=True, timeout=-1):
        if self.owner is not None:
            if self.owner == _tid():
                S.deadlock = 'self-deadlock: a thread re-acquires a non-reentrant lock it already holds'
                raise Deadlock(S.deadlock)
            # held by a suspended frame below us: in this model it cannot be released before we return
            S.stuck = True
            raise Stuck()
        self.owner = _tid()
        return True

    def release(self):
        self.owner = None

    def __enter__(self):
        self.acquire()
        return self

    def __exit__(self, *a):
        self.release()

    def locked(self):
        return self.owner is not None


class MEvent:
    def __init__(self):
        self.flag = False

    def set(self):
        self.flag = True

    def is_set(self):
        return self.flag

    def clear(self):
        self.flag = False

    def wait(self, timeout=None):
        if not self.flag:
            if S.interrupt_pending:
                S.interrupt_pending = False
                raise KeyboardInterrupt()
            S.block_until(lambda: self.flag, 'Event.wait()')
        return True


class MSemaphore:
    def __init__(self, value=1):
        self._value = value
        self._initial = value

    def acquire(self, blocking=True, timeout=None):
        if self._value == 0:
            if not blocking:
                return False
            S.block_until(lambda: self._value > 0, 'Semaphore.acquire()')
        self._value -= 1
        return True

    def release(self, n=1):
        self._value += n


class MCondition:
    def __init__(self, lock=None):
        self.lock = lock or MLock()

    def acquire(self, *a):
        return self.lock.acquire()

    def release(self):
        return self.lock.release()

    def __enter__(self):
        self.acquire()
        return self

    def __exit__(self, *a):
        self.release()

    def wait(self, timeout=None):
        # let somebody else run, then return (spurious wake-ups are allowed by the Condition contract)
        o = self.lock.owner
        self.lock.owner = None
        try:
            r = S.runnable()
            if not r:
                if S.suspended_env > 0:
                    S.stuck = True
                    raise Stuck()
                S.deadlock = 'deadlock: Condition.wait() with nothing left that could notify'
                raise Deadlock(S.deadlock)
            r[S.choose(len(r))].start_next()
        finally:
            self.lock.owner = o

    def notify(self, n=1):
        pass

    def notify_all(self):
        pass


MT = types.SimpleNamespace(Lock=MLock, Event=MEvent, Semaphore=MSemaphore, Condition=MCondition, RLock=MLock,
                           current_thread=lambda: types.SimpleNamespace(name='model-%d' % _tid()))


def install():
    import s3transfer.bandwidth as B
    import s3transfer.download as D
    import s3transfer.futures as F
    import s3transfer.manager as M
    import s3transfer.utils as U
    for mod in (F, U, M, D, B):
        if hasattr(mod, 'threading'):
            mod.threading = MT
    # deterministic iteration of the tracked-coordinator set (hash by transfer id instead of address)
    F.TransferCoordinator.__hash__ = lambda self: hash(self.transfer_id) if self.transfer_id is not None else 0
