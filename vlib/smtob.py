"""SMT obligations translated from the source (vlib/smtstr.py): run as `python -m vlib.smtob <harness module>
<obligation id> <work dir>` in the environment of the tree under analysis; prints one line `SMTOB-RESULT <json>`.

Steps: build the queries from the CURRENT source -> validate the encoding on concrete sample inputs (the solver's
value of the translated function must equal what the real function returns) -> reachability twin (the assumptions
alone must be satisfiable) -> the negated property.  unsat = holds for every input within the stated bounds;
sat = counterexample (returned for concrete replay); anything else = inconclusive."""
import importlib
import json
import os
import re
import subprocess
import sys
import time

CVC5 = ['cvc5', '--strings-exp', '--produce-models']


def solve(text, path, timeout, values=()):
    """text ends with (check-sat); on sat the query is run again with (get-value ...) appended.  Any `(error` in
    the solver's output makes the answer `error` (inconclusive)."""
    t0 = time.time()

    def once(body):
        open(path, 'w').write(body)
        try:
            p = subprocess.run(CVC5 + [path], capture_output=True, text=True, timeout=timeout)
        except subprocess.TimeoutExpired:
            return 'timeout', ''
        out = p.stdout.strip()
        if '(error' in out or not out.split():
            return 'error', out
        return out.split()[0], out
    r, out = once(text)
    if r == 'sat' and values:
        r, out = once(text + '(get-value (%s))\n' % ' '.join(values))
    return r, out, time.time() - t0


_TOK = re.compile(r'\(\s*([A-Za-z_][\w.]*)\s+"((?:[^"]|"")*)"\s*\)')


def unescape(s):
    s = s.replace('""', '"')
    return re.sub(r'\\u\{([0-9a-fA-F]+)\}', lambda m: chr(int(m.group(1), 16)), s)


def model_of(out):
    return {m.group(1): unescape(m.group(2)) for m in _TOK.finditer(out)}


def main():
    module, obid, wdir = sys.argv[1:4]
    timeout = int(sys.argv[4]) if len(sys.argv) > 4 else 120
    sys.path[:0] = ['/verif']
    os.makedirs(wdir, exist_ok=True)
    res = dict(obligation=obid, queries=0, solver_s=0.0)
    try:
        h = importlib.import_module('harness.' + module)
        ob = [o for o in h.SMT_OBLIGATIONS if o['id'] == obid][0]
        from vlib.smtstr import Untranslatable
        try:
            q = ob['build']()
        except Untranslatable as e:
            res.update(status='untranslatable', detail=str(e))
            print('SMTOB-RESULT ' + json.dumps(res))
            return
        res['functions'] = q.get('functions', [])
        res['uninterpreted'] = q.get('uninterpreted', [])
        # 1. the encoding agrees with the real function on concrete samples
        # (with uninterpreted functions in the encoding the solver may pick any interpretation: not comparable - an
        # unsat answer then holds for EVERY interpretation, a sat answer is decided by the concrete replay)
        for i, (smt, want) in enumerate([] if q.get('uninterpreted') else q['samples']):
            r, out, dt = solve(smt, os.path.join(wdir, '%s_sample%d.smt2' % (obid, i)), timeout, ['result'])
            res['queries'] += 1
            res['solver_s'] += dt
            got = model_of(out).get('result')
            if r != 'sat' or got != want:
                res.update(status='encoding-mismatch', detail='sample %d: solver %s %r, real function %r' % (i, r, got, want))
                print('SMTOB-RESULT ' + json.dumps(res))
                return
        res['samples_validated'] = 0 if q.get('uninterpreted') else len(q['samples'])
        # 2. vacuity twin
        r, out, dt = solve(q['twin'], os.path.join(wdir, obid + '_twin.smt2'), timeout)
        res['queries'] += 1
        res['solver_s'] += dt
        res['twin'] = r
        if r != 'sat':
            res.update(status='vacuous' if r == 'unsat' else 'inconclusive', detail='assumptions alone: ' + r)
            print('SMTOB-RESULT ' + json.dumps(res))
            return
        # 3. the negated property, one query per clause (a disjunction of all clauses at once is much slower)
        res['answers'] = {}
        status = 'unsat'
        for label, smt in q['mains']:
            r, out, dt = solve(smt, os.path.join(wdir, '%s_main_%s.smt2' % (obid, label)), timeout, q['values'])
            res['queries'] += 1
            res['solver_s'] += dt
            res['answers'][label] = r
            if r == 'sat':
                res.setdefault('sat_clauses', []).append(dict(clause=label, model=model_of(out)))
            elif r != 'unsat':
                status = 'inconclusive'
                res['detail'] = 'clause %s: %s' % (label, r)
        res['status'] = 'sat' if res.get('sat_clauses') else status
    except Exception as e:  # noqa
        import traceback
        res.update(status='error', detail=traceback.format_exc()[-800:])
    res['solver_s'] = round(res['solver_s'], 2)
    print('SMTOB-RESULT ' + json.dumps(res))


if __name__ == '__main__':
    main()
