"""Obligation runner: generates one CrossHair target module per (obligation, case) from the harness
specs, runs `crosshair check` on each (16 at a time), parses the verdicts, replays counterexamples
concretely against /repo, applies the known-findings file and writes the evidence file.

Exit status of `main`: 0 = nothing refuted; 1 = replayed violation not listed as known finding
(`VIOLATION property=<id> replay=<path>` printed); 3 = harness error (counterexample that does not
reproduce concretely, generator failure)."""
import ast
import concurrent.futures as cf
import importlib
import json
import os
import re
import shutil
import subprocess
import sys
import time

ROOT = '/verif'
PY = ROOT + '/.venv/bin/python'
XH = ROOT + '/.venv/bin/crosshair'
PLUGIN = ROOT + '/xh/plugin.py'
# VERIF_OUT relocates scratch / evidence / replays and VERIF_REPO points the analysis at another source tree: both are
# only for trying seeded changes in scratch worktrees while other checks run; the registered commands use neither.
OUT = os.environ.get('VERIF_OUT') or ROOT
WORK = OUT + '/work'
REPLAYS = OUT + '/replays'
EVIDENCE = OUT + '/evidence'
ENV = dict(os.environ, PYTHONDONTWRITEBYTECODE='1', PYTHONHASHSEED='0', S3TRANSFER_VERIF='1',
           PYTHONPATH=(os.environ['VERIF_REPO'] + ':' + ROOT) if os.environ.get('VERIF_REPO') else ROOT)


def ensure_env():
    subprocess.run([ROOT + '/bin/setup.sh'], check=True, stdout=subprocess.DEVNULL)


def load_known(prop):
    try:
        data = json.load(open(ROOT + '/known_findings.json'))
    except FileNotFoundError:
        return []
    return [e for e in data.get('findings', []) if e['property'] == prop]


# --------------------------------------------------------------------------- job generation
def _doc(pre):
    lines = ['    """']
    for p in pre:
        lines.append('    pre: ' + p)
    lines.append('    post: _')
    lines.append('    """')
    return '\n'.join(lines)


def gen_module(prop, mod, ob, case, known_classes, path, tag, pre):
    """write the CrossHair target file; returns {funcname: lineno}"""
    params = ob['params']
    names = [p.split(':')[0].strip() for p in params.split(',') if p.strip()]
    call = '_h.%s(%s)' % (ob['impl'], ', '.join([repr(c) for c in case] + names))
    src = []
    src.append('import sys')
    src.append("sys.path[:0] = ['/verif']")
    src.append('from vlib import stats as _stats')
    src.append('import harness.%s as _h' % mod)
    src.append('_KNOWN = frozenset(%r)' % (sorted(known_classes),))
    src.append('_TAG = %r' % tag)
    src.append('')
    lines = {}

    def emit(fname, body):
        src.append('')
        lines[fname] = len(src) + 1
        src.append('def %s(%s) -> bool:' % (fname, params))
        src.extend(_doc(pre).split('\n'))
        src.extend('    ' + b for b in body)

    # an impl returns None/'' = holds, '~' = path pruned by the harness (outside the obligation), else a reason
    emit('ob', ['_stats.begin(_TAG)', 'r = ' + call, "if r == '~':", '    return True', '_stats.tick(_TAG, r)',
                'if r:', '    return _stats.cls(r) in _KNOWN', 'return True'])
    emit('ob__reach', ['_stats.begin(_TAG)', 'r = ' + call, 'if r:', '    return True', 'return False'])
    if known_classes:
        emit('ob__known', ['_stats.begin(_TAG)', 'r = ' + call, "if r and r != '~':",
                           '    return _stats.cls(r) not in _KNOWN', 'return True'])
    with open(path, 'w') as f:
        f.write('\n'.join(src) + '\n')
    return lines


_MSG = re.compile(r'^(?P<file>[^:]+):(?P<line>\d+): (?P<kind>error|info): (?P<msg>.*)$')


def parse_output(out, lines):
    """map crosshair output lines to function names by the line number of the def"""
    by_line = sorted((ln, fn) for fn, ln in lines.items())
    res = {}
    for raw in out.splitlines():
        m = _MSG.match(raw)
        if not m:
            continue
        ln = int(m.group('line'))
        fn = None
        for start, name in by_line:
            if start <= ln:
                fn = name
        if fn is None:
            continue
        msg = m.group('msg')
        if m.group('kind') == 'info':
            if msg.startswith('Confirmed over all paths'):
                res.setdefault(fn, ('confirmed', None))
            elif msg.startswith('Not confirmed'):
                res.setdefault(fn, ('not_confirmed', None))
            elif msg.startswith('Unable to meet precondition'):
                res.setdefault(fn, ('no_precondition', None))
        else:
            mm = re.search(r'when calling (\w+)\((.*?)\)(?: \(which returns .*\))?\s*$', msg)
            if mm:
                res[fn] = ('refuted', (mm.group(2), msg))
            else:
                res[fn] = ('error', (None, msg))
    return res


def parse_args(argstr, names=()):
    """'1, b=True' -> dict via the Python parser (literals only)"""
    tree = ast.parse('f(%s)' % argstr, mode='eval')
    out = {}
    for n, a in zip(names, tree.body.args):
        out[n] = ast.literal_eval(a)
    for kw in tree.body.keywords:
        out[kw.arg] = ast.literal_eval(kw.value)
    return out


def replay_concrete(mod, impl, case, args, names, timeout=120, witness=None):
    payload = json.dumps({'module': mod, 'impl': impl, 'case': list(case), 'args': [args[n] for n in names]})
    env = dict(ENV)
    if witness and os.path.exists(witness):
        env['VERIF_WITNESS_IN'] = witness
    p = subprocess.run([PY, '-m', 'vlib.replay', '--json', payload], cwd=ROOT, env=env, capture_output=True,
                       text=True, timeout=timeout)
    for line in p.stdout.splitlines():
        if line.startswith('REPLAY-RESULT '):
            return json.loads(line[len('REPLAY-RESULT '):])['reason']
    return 'replay-crashed|' + (p.stderr or p.stdout)[-400:]


def cls_of(reason):
    return reason.split('|')[0].strip()


# --------------------------------------------------------------------------- running
def run_job(job):
    t0 = time.time()
    targets = ['%s:%d' % (job['path'], ln) for ln in sorted(job['lines'].values())]
    cmd = [XH, 'check', '--report_all', '--unblock', 'open', '--per_condition_timeout', str(job['timeout']),
           '--extra_plugin', PLUGIN, '--'] + targets
    hard = job['timeout'] * len(targets) + 90
    env = dict(ENV, VERIF_WITNESS_OUT=job['path'][:-3] + '.witness.json')
    try:
        p = subprocess.run(cmd, cwd=os.path.dirname(job['path']), env=env, capture_output=True, text=True,
                           timeout=hard)
        out, err = p.stdout, p.stderr
    except subprocess.TimeoutExpired as e:
        out = (e.stdout or b'').decode() if isinstance(e.stdout, bytes) else (e.stdout or '')
        err = 'hard timeout'
    job['wall'] = time.time() - t0
    job['raw'] = out[-2000:]
    job['stderr'] = err[-1500:]
    job['res'] = parse_output(out, job['lines'])
    return job


SOLVERS = {'z3-4.8.12': ['/usr/bin/z3'], 'z3-5.1': ['z3-new'], 'cvc5-1.0': ['cvc5', '--fp-exp']}


def run_lemma(job):
    """one SMT-LIB lemma on every available back end; any '(error' or disagreement => inconclusive"""
    t0 = time.time()
    res = {}
    for name in job['solvers']:
        t1 = time.time()
        try:
            p = subprocess.run(SOLVERS[name] + [job['path']], capture_output=True, text=True, timeout=job['timeout'])
            out = p.stdout.strip()
            ans = 'error' if '(error' in out or not out else out.split()[0]
        except subprocess.TimeoutExpired:
            ans = 'timeout'
        res[name] = (ans, round(time.time() - t1, 2))
    job['res'] = res
    job['wall'] = time.time() - t0
    return job


def lemma_jobs(prop, hmod, tier):
    jobs = []
    lem = getattr(hmod, 'LEMMAS', [])
    if not lem:
        return jobs
    wdir = os.path.join(WORK, prop, 'lemmas')
    os.makedirs(wdir, exist_ok=True)
    subprocess.run([PY, ROOT + '/lemmas/gen.py', wdir], check=True)
    for l in lem:
        if l.get('tier', 'quick') == 'thorough' and tier != 'thorough':
            continue
        jobs.append(dict(lemma=l, path=os.path.join(wdir, l['file'] + '.smt2'), solvers=l['solvers'],
                         timeout=l['timeout'][1 if tier == 'thorough' else 0]))
    return jobs


def smt_jobs(prop, mod, hmod, tier, only):
    """obligations translated from the source into SMT-LIB (vlib/smtob.py), decided by cvc5"""
    jobs = []
    for o in getattr(hmod, 'SMT_OBLIGATIONS', []):
        if only and o['id'] not in only:
            continue
        jobs.append(dict(ob=o, mod=mod, wdir=os.path.join(WORK, prop, 'smt'),
                         timeout=o['timeout'][1 if tier == 'thorough' else 0]))
    return jobs


def run_smt(job):
    t0 = time.time()
    res = dict(status='error', detail='no output')
    try:
        p = subprocess.run([PY, '-m', 'vlib.smtob', job['mod'], job['ob']['id'], job['wdir'], str(job['timeout'])],
                           cwd=ROOT, env=ENV, capture_output=True, text=True, timeout=job['timeout'] * 12 + 60)
        for line in p.stdout.splitlines():
            if line.startswith('SMTOB-RESULT '):
                res = json.loads(line[len('SMTOB-RESULT '):])
        if res.get('detail') == 'no output':
            res['detail'] = (p.stderr or p.stdout)[-400:]
    except subprocess.TimeoutExpired:
        res = dict(status='inconclusive', detail='hard timeout')
    job['res'] = res
    job['wall'] = time.time() - t0
    return job


def expand(prop, mod, hmod, tier, only=None):
    known = load_known(prop)
    jobs = []
    wdir = os.path.join(WORK, prop)
    shutil.rmtree(wdir, ignore_errors=True)
    os.makedirs(wdir)
    for ob in hmod.OBLIGATIONS:
        if ob.get('tier', 'quick') == 'thorough' and tier != 'thorough':
            continue
        if ob.get('tier') == 'quick-only' and tier != 'quick':
            continue
        if only and not any(ob['id'] == o or ob['id'].startswith(o + '.') or ob['impl'] == o for o in only):
            continue
        cases = ob.get('cases') or [()]
        pre = ob.get('pre', [])
        if tier == 'thorough':
            cases = ob.get('cases_thorough') or cases
            pre = ob.get('pre_thorough') or pre
        if callable(cases):
            cases = cases()
        to = ob.get('timeout', (60, 300))
        timeout = min(to[1], int(os.environ.get('VERIF_THOROUGH_CAP', '600'))) if tier == 'thorough' else to[0]
        kn = sorted({e['class'] for e in known if e['obligation'] == ob['id'] and e['status'] == 'finding'})
        splits = ob.get('splits') or [[]]
        if tier == 'thorough':
            splits = ob.get('splits_thorough') or splits
        i = -1
        for case in cases:
            for sp in splits:
                i += 1
                tag = '%s_%s_%d' % (prop, ob['id'].replace('.', '_'), i)
                path = os.path.join(wdir, 'ob_%s_%d.py' % (ob['id'].replace('.', '_'), i))
                lines = gen_module(prop, mod, ob, case, kn, path, os.path.join(wdir, tag + '.ticks'),
                                   list(pre) + list(sp))
                jobs.append(dict(ob=ob, case=tuple(case), path=path, lines=lines, timeout=timeout, known=kn,
                                 ticks=os.path.join(wdir, tag + '.ticks'), pre=list(pre) + list(sp)))
    return jobs, known


def read_ticks(path):
    n_paths = n_ok = 0
    try:
        with open(path) as f:
            for line in f:
                if line.startswith('T'):
                    n_paths += 1
                    if line.startswith('T0'):
                        n_ok += 1
    except FileNotFoundError:
        pass
    return n_paths, n_ok


def main(prop, mod, tier='quick', only=None, extra_evidence=None, pre_results=None):
    """run all obligations of harness.<mod> for property <prop>; returns exit status"""
    t0 = time.time()
    ensure_env()
    sys.path[:0] = [ROOT]
    hmod = importlib.import_module('harness.' + mod)
    layout_missing = list(hmod.probe()) if hasattr(hmod, 'probe') else []
    # private-attribute groups, probed on the tree under analysis (same environment as the analysis itself)
    try:
        lp = subprocess.run([PY, '-m', 'vlib.layout'], cwd=ROOT, env=ENV, capture_output=True, text=True, timeout=120)
        groups_missing = []
        for line in lp.stdout.splitlines():
            if line.startswith('LAYOUT-MISSING '):
                groups_missing = json.loads(line[len('LAYOUT-MISSING '):])
    except Exception:  # noqa
        groups_missing = []
    jobs, known = expand(prop, mod, hmod, tier, only)
    skipped = []
    default_groups = list(getattr(hmod, 'LAYOUT', []))
    if layout_missing or groups_missing:
        keep = []
        for j in jobs:
            need = j['ob'].get('groups')
            need = set(default_groups if need is None else need)
            if (need & set(groups_missing)) or (layout_missing and j['ob'].get('groups') != []):
                skipped.append(j)
            else:
                keep.append(j)
        jobs = keep
        layout_missing = layout_missing + ['group:' + g for g in groups_missing]
    workers = int(os.environ.get('VERIF_JOBS', '16'))
    ljobs = [] if only else lemma_jobs(prop, hmod, tier)
    sjobs = smt_jobs(prop, mod, hmod, tier, only)
    with cf.ThreadPoolExecutor(workers) as ex:
        lfut = [ex.submit(run_lemma, j) for j in ljobs]
        sfut = [ex.submit(run_smt, j) for j in sjobs]
        done = list(ex.map(run_job, jobs))
        ldone = [f.result() for f in lfut]
        sdone = [f.result() for f in sfut]

    records = []
    violations = []
    harness_errors = []
    known_hit = {}
    n_ob = n_dis = n_eval = n_distinct = 0
    for j in done:
        ob = j['ob']
        names = [p.split(':')[0].strip() for p in ob['params'].split(',') if p.strip()]
        res = j['res']
        v_ob = res.get('ob', ('no_output', None))
        v_reach = res.get('ob__reach', ('no_output', None))
        paths, ok_paths = read_ticks(j['ticks'])
        rec = dict(obligation=ob['id'], impl=ob['impl'], case=list(j['case']), pre=j['pre'], verdict=v_ob[0],
                   reach_twin=v_reach[0], wall_s=round(j['wall'], 1), paths_completed=paths,
                   timeout_s=j['timeout'], bounds=ob.get('bounds', ''), encodes=ob.get('encodes', []),
                   assumptions=ob.get('assumptions', []))
        n_ob += 1
        n_eval += paths
        n_distinct += ok_paths
        status = 'inconclusive'
        if v_ob[0] == 'confirmed':
            if v_reach[0] in ('refuted', 'error'):
                status = 'discharged'
                n_dis += 1
            else:
                status = 'vacuous'
        elif v_ob[0] in ('refuted', 'error'):
            argstr, msg = v_ob[1]
            rec['counterexample'] = msg[:600]
            if any(t in msg for t in ('NotDeterministic', 'CrossHairInternal', 'IgnoreAttempt', 'UnexploredPath')):
                argstr = None      # an engine-internal condition, not a statement about the code under test
                rec['engine_internal'] = True
            reason = None
            if argstr is not None:
                try:
                    args = parse_args(argstr, names)
                    wit = j['path'][:-3] + '.witness.json' if ob.get('real_model') else None
                    reason = replay_concrete(mod, ob['impl'], j['case'], args, names, witness=wit)
                    rec['replay_reason'] = reason
                    if wit and os.path.exists(wit):
                        rec['witness'] = json.load(open(wit))
                except Exception as e:  # noqa
                    reason = None
                    rec['replay_error'] = repr(e)
            if reason:
                if cls_of(reason) in j['known']:
                    # can happen when the symbolic class differs from the concrete one; treat as known
                    known_hit.setdefault(cls_of(reason), reason)
                    status = 'known-finding'
                else:
                    status = 'violation'
                    os.makedirs(os.path.join(REPLAYS, prop), exist_ok=True)
                    rpath = os.path.join(REPLAYS, prop, '%s_%s.json' % (ob['id'], os.path.basename(j['path'])[3:-3]))
                    json.dump({'property': prop, 'obligation': ob['id'], 'module': mod, 'impl': ob['impl'],
                               'witness': rec.get('witness'),
                               'case': list(j['case']), 'args': [args[n] for n in names], 'arg_names': names,
                               'reason': reason, 'crosshair': msg,
                               'replay_cmd': '%s -m vlib.replay --file <this file>' % PY}, open(rpath, 'w'), indent=1)
                    violations.append((ob['id'], rpath, reason))
                    rec['replay'] = rpath
            elif rec.get('engine_internal'):
                status = 'inconclusive (engine-internal condition)'
            elif ob.get('real_model'):
                # the witness only fails over the reals (sits on a strict boundary of the binary64 run)
                status = 'inconclusive (real-only witness)'
            else:
                status = 'harness-error'
                harness_errors.append((ob['id'], j['case'], msg, rec.get('replay_reason'), j['stderr'][-300:]))
        elif v_ob[0] == 'no_output':
            rec['stderr'] = j['stderr'][-500:]
        # known-finding witness
        v_kn = res.get('ob__known')
        if v_kn and v_kn[0] in ('refuted', 'error') and v_kn[1][0] is not None:
            try:
                args = parse_args(v_kn[1][0], names)
                reason = replay_concrete(mod, ob['impl'], j['case'], args, names)
                if reason and cls_of(reason) in j['known']:
                    known_hit.setdefault((ob['id'], cls_of(reason)), dict(reason=reason, case=list(j['case']), args=args))
                    rec['known_finding_witness'] = dict(args=args, reason=reason)
            except Exception as e:  # noqa
                rec['known_replay_error'] = repr(e)
        rec['status'] = status
        records.append(rec)
    for j in ldone:
        l = j['lemma']
        answers = {k: v[0] for k, v in j['res'].items()}
        good = [k for k, v in answers.items() if v == l['expect']]
        bad = [k for k, v in answers.items() if v in ('sat', 'unsat') and v != l['expect']]
        n_ob += 1
        rec = dict(obligation=l['id'], kind='smt-lemma', file=l['file'] + '.smt2', expect=l['expect'],
                   solvers=j['res'], wall_s=round(j['wall'], 1), statement=l['statement'])
        if bad:
            rec['status'] = 'harness-error'
            harness_errors.append((l['id'], 'lemma answered %r, expected %s' % (answers, l['expect'])))
        elif good:
            rec['status'] = 'discharged'
            n_dis += 1
            n_eval += len(good)
        else:
            rec['status'] = 'inconclusive'
        records.append(rec)
    for j in sdone:
        o, r = j['ob'], j['res']
        n_ob += 1
        rec = dict(obligation=o['id'], kind='smt-from-source', verdict=r.get('status'), answers=r.get('answers'),
                   queries=r.get('queries', 0), solver_wall_s=r.get('solver_s'), wall_s=round(j['wall'], 1),
                   functions_encoded=r.get('functions', []), uninterpreted=r.get('uninterpreted', []),
                   samples_validated=r.get('samples_validated'), reach_twin=r.get('twin'), detail=r.get('detail'),
                   bounds=o.get('bounds', ''), encodes=o.get('encodes', []), assumptions=o.get('assumptions', []),
                   checker_cmd='cvc5 --strings-exp --produce-models <generated query>.smt2')
        n_eval += r.get('queries', 0)
        if r.get('status') == 'unsat':
            rec['status'] = 'discharged'
            n_dis += 1
            n_distinct += len(r.get('answers') or {})
        elif r.get('status') == 'sat':
            names = o['model_args']
            confirmed = None
            tried = []
            for sc in r.get('sat_clauses', []):
                args = {n: sc['model'].get(n, '') for n in names}
                try:
                    reason = replay_concrete(o['module'], o['impl'], (), args, names)
                except Exception as e:  # noqa
                    reason = None
                    rec['replay_error'] = repr(e)
                tried.append(dict(clause=sc['clause'], args=args, replay_reason=reason))
                if reason:
                    confirmed = (sc, args, reason)
                    break
            rec['counterexamples'] = tried
            if confirmed:
                sc, args, reason = confirmed
                rec['status'] = 'violation'
                os.makedirs(os.path.join(REPLAYS, prop), exist_ok=True)
                rpath = os.path.join(REPLAYS, prop, '%s_%s.json' % (o['id'], sc['clause']))
                json.dump({'property': prop, 'obligation': o['id'], 'module': o['module'], 'impl': o['impl'],
                           'case': [], 'args': [args[n] for n in names], 'arg_names': names, 'reason': reason,
                           'solver': 'cvc5 model of clause ' + sc['clause'],
                           'replay_cmd': '%s -m vlib.replay --file <this file>' % PY}, open(rpath, 'w'), indent=1)
                violations.append((o['id'], rpath, reason))
                rec['replay'] = rpath
            elif r.get('uninterpreted'):
                # the encoding over-approximates constructs it does not interpret: a model that does not reproduce
                # says nothing about the code
                rec['status'] = 'inconclusive (counterexample of the over-approximation does not reproduce)'
            else:
                rec['status'] = 'harness-error'
                harness_errors.append((o['id'], (), 'solver model does not reproduce', str(tried)[:300], ''))
        else:
            rec['status'] = 'inconclusive'
        records.append(rec)
    for j in skipped:
        records.append(dict(obligation=j['ob']['id'], case=list(j['case']), status='skipped: layout',
                            missing=layout_missing))

    for e in known:
        if e['status'] != 'finding':
            continue
        hit = [k for k in known_hit if isinstance(k, tuple) and k[0] == e['obligation'] and k[1] == e['class']]
        if hit:
            print('KNOWN-FINDING: property=%s %s [%s, class %s]' % (prop, e['what'], e['obligation'], e['class']))
    for obid, rpath, reason in violations:
        print('VIOLATION property=%s replay=%s' % (prop, rpath))
        print('  obligation %s: %s' % (obid, reason))
    for he in harness_errors:
        print('HARNESS-ERROR (counterexample did not reproduce concretely): %r' % (he,))

    wall = time.time() - t0
    ev = build_evidence(prop, tier, hmod, records, n_ob, n_dis, n_eval, n_distinct, wall, len(violations),
                        extra_evidence, known_hit, layout_missing)
    os.makedirs(EVIDENCE, exist_ok=True)
    with open(EVIDENCE + '/%s.json' % prop, 'w') as f:
        json.dump(ev, f, indent=1, default=str)
    summary = {}
    for r in records:
        summary[r['status']] = summary.get(r['status'], 0) + 1
    print('%s tier=%s obligations=%d %s wall=%.0fs' % (prop, tier, n_ob, summary, wall))
    for r in records:
        if r['status'] not in ('discharged',):
            print('  - %s case=%s: %s (verdict=%s reach=%s, %ss)' % (r['obligation'], r.get('case'), r['status'],
                                                                    r.get('verdict'), r.get('reach_twin'), r.get('wall_s')))
    if violations:
        return 1
    if harness_errors and os.environ.get('VERIF_STRICT') == '1':
        return 3     # development mode: a counterexample that does not reproduce concretely is a bug of the harness
    # otherwise such an obligation is inconclusive: it is listed in the evidence (status harness-error) and printed
    # above, it is never reported as a violation and never counted as discharged
    return 0


def build_evidence(prop, tier, hmod, records, n_ob, n_dis, n_eval, n_distinct, wall, n_viol, extra, known_hit,
                   layout_missing):
    import crosshair
    import z3
    samples = records[:]
    cov = {
        'explanation': getattr(hmod, 'EXPLANATION', '') or (
            'Symbolic execution of the real s3transfer code by CrossHair (z3 decides every branch); an obligation '
            'counts as discharged only when CrossHair reports "Confirmed over all paths" (path tree exhausted) and its '
            'reachability twin is refuted.'),
        'obligations': n_ob,
        'discharged': n_dis,
        'inconclusive': sum(1 for r in records if r['status'] in ('inconclusive', 'vacuous')),
        'evaluations': max(n_eval, 1),
        'distinct_nontrivial': n_distinct,
        'rule': 'one evaluation = one symbolic path through an obligation that ran to its final assertion (each path '
                'is a distinct feasible path condition over the symbolic inputs, covering every concrete input that '
                'satisfies it); non-trivial = the path satisfied the preconditions and ended with the oracle holding',
        'samples': samples,
        'checker_cmd': 'crosshair check --report_all --per_condition_timeout T --extra_plugin /verif/xh/plugin.py -- <generated obligation module>:<line>',
        'trusted_base': ['CPython 3.12', 'CrossHair 0.0.110', 'z3 ' + z3.get_version_string(),
                         'shims S1/S2 (DESIGN 2.3) with lemmas L1/L2', 'fakes in /verif/vlib'],
        'solver_wall_s_sum': round(sum(r.get('wall_s', 0) for r in records), 1),
        'known_findings_reproduced': [str(k) for k in known_hit],
        'layout_missing': layout_missing,
        'exhaustive': False,
    }
    if extra:
        cov.update(extra)
    return {
        'property_id': prop,
        'tier': tier,
        'seed': int(os.environ.get('VERIF_SEED', '0') or 0),
        'level': 'other',
        'coverage': cov,
        'assumptions': sorted({a for r in records for a in r.get('assumptions', [])}) + list(getattr(hmod, 'ASSUMPTIONS', [])),
        'wall_s': round(wall, 1),
        'violations': n_viol,
    }
